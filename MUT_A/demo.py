"""MUT_A demo: exact-signal simulation with exactly as many channels as
conditions (the boundary of "at least as many channels as conditions").

Zero noise + use_exact_signal=True must give a squared-Euclidean RDM by
condition equal to  signal * model RDM.  Checked for n_channel == n_cond and,
as a control, for n_channel == n_cond + 6.
"""
import sys
import numpy as np
from scipy.spatial.distance import pdist
import rsatoolbox
from rsatoolbox.simulation import sim

TOL = 1e-4   # relative to the largest model dissimilarity


def rel_err(n_cond, n_channel, seed, signal=2.5, n_part=3, n_sim=2):
    rng = np.random.default_rng(seed)
    points = rng.normal(size=(n_cond, n_cond))        # Euclidean-embeddable
    rdm = pdist(points, 'sqeuclidean')
    model = rsatoolbox.model.ModelFixed('m', rdm)
    cond_vec, _ = sim.make_design(n_cond, n_part)
    np.random.seed(seed)
    data = sim.make_dataset(model, None, cond_vec, n_channel=n_channel,
                            n_sim=n_sim, signal=signal, noise=0,
                            use_exact_signal=True)
    worst = 0.0
    for ds in data:
        est = rsatoolbox.rdm.calc_rdm(ds, method='euclidean',
                                      descriptor='cond_vec').get_vectors()[0]
        worst = max(worst, np.max(np.abs(est - signal * rdm)) / rdm.max())
    return worst


def main():
    bad = []
    for seed in range(12):
        n_cond = 3 + seed % 6
        e_control = rel_err(n_cond, n_cond + 6, seed)
        e_boundary = rel_err(n_cond, n_cond, seed)
        print(f"n_cond={n_cond}: rel.err n_channel=n_cond+6: {e_control:.2e}"
              f"   n_channel=n_cond: {e_boundary:.2e}")
        if e_control > TOL:
            bad.append(f"control n_cond={n_cond} n_channel={n_cond + 6} "
                       f"rel.err={e_control:.3g}")
        if e_boundary > TOL:
            bad.append(f"n_cond={n_cond} n_channel={n_cond} "
                       f"rel.err={e_boundary:.3g}")
    if bad:
        print("FAIL: exact-signal, zero-noise data do not reproduce "
              "signal * model RDM:")
        for b in bad:
            print("   ", b)
        return 1
    print("PASS")
    return 0


if __name__ == '__main__':
    sys.exit(main())
