"""C19 -- searchlights hold exactly the voxels in radius; RDMs match direct computation; parallel evaluation returns one
result per centre in centre order under every worker schedule.

Geometry and RDMs are checked against brute force; evaluate_models_searchlight runs under the scheduler seam
(sim/jobsched.py): n_jobs, batch size and completion order are chosen by the seeded scheduler."""
from __future__ import annotations
import itertools

import numpy as np

from sim.kernel import H, HarnessError
from sim.jobsched import Scheduler, Stall

PROPERTY = 'C19'
RULE = ('seeded plans: 3-D mask (random shapes up to 7x6x5, all 256 masks of shape 2x2x2 and all masks of 1x2x3 / 1x1x4 in '
        'directed scenarios), radius in {1,1.01,sqrt2,1.5,sqrt3,2,2.5,3}, threshold in {0.3,0.5,0.75,1.0}; data matrix with '
        'hash-encoded cells, event vectors (int/str, uneven repetitions), method in {euclidean, correlation}; centre counts '
        'on both sides of the chunk limit (999/1000/1001/1331...); evaluate_models_searchlight under the seeded joblib '
        'scheduler with n_jobs in {1,2,3,4,8,16}, batch size 1-4, policy in {random, lifo, fifo} and optional straggler. '
        'Non-trivial = at least one scheduling decision among >= 2 queued batches, or a geometry/RDM comparison with >= 1 '
        'accepted centre; distinct = distinct (mode, shape class, radius, threshold, method, n_jobs, batch, policy, '
        'completion-permutation hash) signatures.')
ASSUMPTIONS = ['joblib 1.6.0 internals used by the scheduler seam (ParallelBackendBase, joblib.parallel.time)',
               'tasks are executed atomically one at a time by the simulator, so interleavings *inside* one task are not explored',
               'calc_rdm on a single searchlight is C01\'s primitive; here it is compared with an independent numpy reference']
BUDGET = {'quick': {'runs': 2500, 'cap_s': 60, 'wall_s': 110, 'chunk': 20},
          'thorough': {'runs': 40000, 'cap_s': 180, 'wall_s': 1500, 'chunk': 100}}

RADII = [1, 1.01, 2 ** 0.5, 1.5, 3 ** 0.5, 2, 2.5, 3]
THRESH = [0.3, 0.5, 0.75, 1.0, 0.7, 0.6, 0.2, 0.9]


def _cell(o, v):
    return (H('d', int(o), int(v)) % 1024) / 64.0


def _data(n_obs, V, dtype, const_cols=False):
    """data matrix of the planned dtype (integer types get integer-valued cells)"""
    if dtype.startswith('int'):
        d = np.array([[H('d', o, v) % 40 for v in range(V)] for o in range(n_obs)], dtype=dtype)
    else:
        d = np.array([[_cell(o, v) for v in range(V)] for o in range(n_obs)], dtype=dtype)
    if const_cols and V > 2:
        d[:, 1::3] = 0           # every third voxel carries no signal at all
    return d



def _nb(x):
    """bytes of a numeric array with every NaN in one canonical form (the sign bit / payload of a NaN is not a value)"""
    x = np.asarray(x)
    return np.where(np.isnan(x), np.nan, x).tobytes() if x.dtype.kind in 'fc' else x.tobytes()


def gen_plan(rng, tier, index):
    big = tier == 'thorough'
    mode = rng.wpick([('geom', 3), ('rdm', 3), ('eval', 4), ('chunk', 0.25 if not big else 0.6)])
    shape = [rng.randint(1, 7), rng.randint(1, 6), rng.randint(1, 5)]
    if mode in ('rdm', 'eval'):
        shape = [rng.randint(2, 5), rng.randint(2, 4), rng.randint(1, 4)]
    n = shape[0] * shape[1] * shape[2]
    dens = rng.pick([0.3, 0.6, 0.85, 1.0])
    bits = [1 if rng.random() < dens else 0 for _ in range(n)]
    n_cond = rng.randint(3, 5)
    labs = list(range(n_cond)) if rng.chance(0.5) else ['c%d' % (k * 7 % 11) for k in range(n_cond)]
    events = []
    for l in labs:
        events += [l] * rng.randint(1, 3)
    rng.shuffle(events)
    plan = {'mode': mode, 'shape': shape, 'bits': bits, 'radius': rng.pick(RADII), 'threshold': rng.pick(THRESH),
            'events': events, 'method': rng.pick(['euclidean', 'correlation', 'euclidean', 'correlation', 'mahalanobis', 'crossnobis', 'poisson']),
            'mask_dtype': rng.pick(['bool', 'bool', 'int8', 'float64', 'int64']), 'containers': rng.pick([0, 0, 1, 2, 3, 4]), 'peek': rng.chance(0.3), 'prehistory': rng.chance(0.3), 'eval_fn': rng.pick(['eval', 'eval', 'eval', 'tag_only']), 'events_as': rng.pick(['list', 'array']),
            'sched': {'n_jobs': rng.pick([1, 2, 3, 4, 8, 16, -1]), 'batch': rng.randint(1, 4),
                      'policy': rng.pick(['random', 'random', 'lifo', 'fifo']),
                      'straggler': rng.pick([None, None, 0, 1, 5]), 'seed': rng.randrange(10 ** 9)},
            'n_models': rng.randint(1, 2), 'eval_method': rng.pick(['corr', 'cosine', 'spearman']),
            'n_centers_big': rng.pick([999, 1000, 1001, 1002, 1100, 1331, 2003]), 'n_vox_big': rng.randint(6, 40),
            'dtype': rng.pick(['float64', 'float64', 'float32', 'int64', 'int16']),
            'mask_layout': rng.pick(['C', 'C', 'F', 'T']), 'centre_pick': rng.pick(['all', 'all', 'subset', 'permuted']),
            'model_kind': rng.pick(['fixed', 'fixed', 'weighted', 'mixed', 'single']), 'theta_salt': rng.pick([0, 0, 1, 2, 3]),
            'mask_vals': rng.pick(['binary', 'binary', 'binary', 'labels', 'frac', 'signed']),
            'const_cols': rng.chance(0.25)}      # voxels without signal (exact zeros outside the brain, a dead channel) are data columns like the others
    return plan


def directed_plans(tier):
    plans = []
    base = {'mode': 'geom', 'events': [0, 1, 2, 0, 1, 2], 'method': 'euclidean',
            'sched': {'n_jobs': 2, 'batch': 1, 'policy': 'random', 'straggler': None, 'seed': 1}, 'n_models': 1,
            'eval_method': 'corr', 'n_centers_big': 1001, 'n_vox_big': 8}
    # all masks of small volumes, in blocks (each directed plan enumerates a block of masks x all radii x all thresholds)
    for shape, nbits in (([2, 2, 2], 8), ([1, 2, 3], 6), ([1, 1, 4], 4), ([3, 1, 2], 6)):
        allm = list(range(2 ** nbits))
        step = 32
        for s in range(0, len(allm), step):
            plans.append({**base, 'mode': 'geom_block', 'shape': shape, 'mask_ids': allm[s:s + step], 'bits': [], 'radius': 1,
                          'threshold': 1.0})
    plans.append({**base, 'mode': 'chunk', 'shape': [1, 1, 1], 'bits': [1], 'radius': 1, 'threshold': 1.0, 'n_centers_big': 1000})
    plans.append({**base, 'mode': 'chunk', 'shape': [1, 1, 1], 'bits': [1], 'radius': 1, 'threshold': 1.0, 'n_centers_big': 1001})
    plans.append({**base, 'mode': 'chunk', 'shape': [1, 1, 1], 'bits': [1], 'radius': 1, 'threshold': 1.0, 'n_centers_big': 1001, 'dtype': 'int16'})
    plans.append({**base, 'mode': 'chunk', 'shape': [1, 1, 1], 'bits': [1], 'radius': 1, 'threshold': 1.0, 'n_centers_big': 1001, 'dtype': 'float32'})
    if tier == 'thorough':
        plans.append({**base, 'mode': 'rdm', 'shape': [11, 11, 11], 'bits': [1] * 1331, 'radius': 1.01, 'threshold': 0.3})
    for pol in ('random', 'lifo', 'fifo'):
        for nj in (2, 4):
            plans.append({**base, 'mode': 'eval', 'shape': [3, 3, 2], 'bits': [1] * 18, 'radius': 1.5, 'threshold': 0.3,
                          'sched': {'n_jobs': nj, 'batch': 1, 'policy': pol, 'straggler': 0, 'seed': 5}})
    return plans


def summarize(plan):
    s = dict(plan)
    if len(s.get('bits', [])) > 60:
        s['bits'] = 'x%d (sum %d)' % (len(plan['bits']), sum(plan['bits']))
    return s


def shrink_candidates(plan):
    sh = plan['shape']
    if plan['mode'] in ('geom', 'rdm', 'eval'):
        for ax in range(3):
            if sh[ax] > 1:
                new = list(sh)
                new[ax] -= 1
                m = np.array(plan['bits']).reshape(sh)
                m = np.delete(m, sh[ax] - 1, axis=ax)
                yield {**plan, 'shape': new, 'bits': m.ravel().tolist()}
        if plan['mode'] == 'eval':
            s = plan['sched']
            if s['straggler'] is not None:
                yield {**plan, 'sched': {**s, 'straggler': None}}
            if s['batch'] > 1:
                yield {**plan, 'sched': {**s, 'batch': 1}}
            if s['policy'] != 'lifo':
                yield {**plan, 'sched': {**s, 'policy': 'lifo'}}
            if s['n_jobs'] not in (2,):
                yield {**plan, 'sched': {**s, 'n_jobs': 2}}
        if len(plan['events']) > 3:
            yield {**plan, 'events': plan['events'][:-1]}


# ------------------------------------------------------------------------------------------- references
def brute_geometry(mask, radius, threshold):
    """per mask voxel (np.nonzero order): (linear index, admissible outcomes), by brute force over all voxels.
    An outcome is (sorted neighbour list, accepted?).  Squared distances between voxels are integers and exact; a voxel
    whose distance equals the radius up to floating-point rounding (radius = sqrt(2) as a float is larger than the true
    sqrt(2), so "strictly below" holds in exact arithmetic and fails in float arithmetic) may be in or out, and a mask
    fraction equal to the threshold up to rounding may be accepted or not: the statement does not settle rounding.
    Undecided means: exact rational arithmetic and a *double-precision* evaluation of the comparison (in either of its
    usual algebraic forms) disagree; anything else -- single precision included -- is decided by exact arithmetic"""
    shape = mask.shape
    vox = list(itertools.product(range(shape[0]), range(shape[1]), range(shape[2])))
    lin = lambda v: v[0] * shape[1] * shape[2] + v[1] * shape[2] + v[2]
    from fractions import Fraction
    r2 = float(radius) * float(radius)
    r2x = Fraction(float(radius)) ** 2            # the radius the caller passed, squared exactly
    thx = Fraction(float(threshold))
    tol = 1e-9 * max(1.0, r2)
    out = []
    for c in vox:
        if not mask[c]:
            continue
        must, may = [], []
        for v in vox:
            d2 = (v[0] - c[0]) ** 2 + (v[1] - c[1]) ** 2 + (v[2] - c[2]) ** 2
            exact_in = Fraction(d2) < r2x          # (a distance exactly equal to the radius is not strictly below it)
            # double-precision evaluations of the same comparison that an implementation may legitimately use
            dbl = {float(np.sqrt(float(d2))) < float(radius), float(d2) < r2}
            if dbl != {exact_in}:
                may.append(v)             # exact arithmetic and a double-precision evaluation disagree: undecided
            elif exact_in:
                must.append(v)
        outcomes = []
        for nb in ([must] if not may else [must, must + may]):
            if not nb:
                outcomes.append(([], False))
                continue
            frac = sum(1 for v in nb if mask[v]) / len(nb)
            lst = sorted(lin(v) for v in nb)
            k_in = sum(1 for v in nb if mask[v])
            fx = Fraction(k_in, len(nb))
            exact_ok = fx >= thx
            dbl = {float(k_in) / float(len(nb)) >= float(threshold), float(k_in) >= float(threshold) * float(len(nb))}
            if dbl != {exact_ok}:
                outcomes += [(lst, True), (lst, False)]      # exact arithmetic and a double-precision evaluation disagree
            else:
                outcomes.append((lst, exact_ok))
        out.append((lin(c), outcomes))
    return out


def check_geometry(ctx, mask, radius, threshold, tag=''):
    from rsatoolbox.util.searchlight import get_volume_searchlight
    ref = brute_geometry(mask, radius, threshold)
    n_sure = sum(1 for _, oc in ref if all(a for _, a in oc))
    desc = f'mask shape {list(mask.shape)} {mask.astype(int).ravel().tolist() if mask.size <= 40 else "(%d voxels set)" % int(mask.sum())}, radius {radius}, threshold {threshold}'
    if tag == 'prehistory':
        # an earlier analysis in the same session: the same radius on a volume thinner than the radius along one axis,
        # and a larger radius on this volume (whatever the first calls leave behind must not shape later ones)
        try:
            get_volume_searchlight(np.ones((1,) + tuple(mask.shape[1:]), dtype=bool), radius=radius, threshold=0.5)
            get_volume_searchlight(np.ones(mask.shape, dtype=bool), radius=radius + 1, threshold=1.0)
        except Exception:
            pass
        # ... and the caller's mask *array object* held other content a moment ago (a mask that is edited in place between
        # two analyses: what is computed is a function of its content now, not of the object)
        saved = mask.copy()
        try:
            mask[...] = np.roll(saved, 1, axis=0) if saved.shape[0] > 1 else (saved == 0).astype(saved.dtype)
            try:
                get_volume_searchlight(mask, radius=radius, threshold=threshold)
            except Exception:
                pass
        except ValueError:
            pass           # read-only mask
        finally:
            try:
                mask[...] = saved
            except ValueError:
                pass
        ctx.probe('geometry_prehistory')
    try:
        # (numbers arrive as Python scalars or as numpy scalars, e.g. elements of np.arange(...) / 10)
        as_np = tag == 'prehistory' or (int(mask.sum()) % 2 == 1)
        centers, neighbors = get_volume_searchlight(mask, radius=np.float64(radius) if as_np else radius,
                                                    threshold=np.float64(threshold) if as_np else threshold)
    except Exception as e:
        kind = 'empty' if not n_sure else 'nonempty'
        ctx.violation('sl_ref.geometry', f'get_volume_searchlight:raises:{kind}',
                      f'get_volume_searchlight raised {type(e).__name__}: {e} for {desc} ({n_sure} centres qualify)')
        return None
    got_c = [int(c) for c in np.asarray(centers).ravel().tolist()]
    if len(neighbors) != len(got_c):
        ctx.violation('sl_ref.geometry', 'get_volume_searchlight:neighbour-count', f'{len(neighbors)} neighbour lists for {len(got_c)} centres ({desc})')
        return None
    k = 0
    for c, outcomes in ref:
        if k < len(got_c) and got_c[k] == c:
            gl = sorted(int(x) for x in np.asarray(neighbors[k]).ravel().tolist())
            k += 1
            if not any(a for _, a in outcomes):
                ctx.violation('sl_ref.geometry', 'get_volume_searchlight:centres',
                              f'voxel {c} was accepted as a centre although its searchlight lies inside the mask by less than '
                              f'the threshold fraction; accepted centres {got_c[:30]} for {desc}')
                return None
            if not any(a and lst == gl for lst, a in outcomes):
                ctx.violation('sl_ref.geometry', 'get_volume_searchlight:neighbours',
                              f'centre {c}: neighbours {gl} != voxels at distance < {radius}: {[lst for lst, a in outcomes if a]} ({desc})')
                return None
        elif not any(not a for _, a in outcomes):
            ctx.violation('sl_ref.geometry', 'get_volume_searchlight:centres',
                          f'mask voxel {c} qualifies as a centre but is missing (or out of order) in the accepted centres {got_c[:30]} for {desc}')
            return None
    if k != len(got_c):
        ctx.violation('sl_ref.geometry', 'get_volume_searchlight:centres',
                      f'accepted centres {got_c[:30]} are not mask voxels in scan order ({desc})')
        return None
    if any(len(oc) > 1 for _, oc in ref):
        ctx.probe('geometries_with_rounding_ties')
    ctx.probe('geometries_checked')
    if got_c:
        ctx.probe('centres_checked', len(got_c))
        ctx.nontrivial = True
    else:
        ctx.probe('empty_result_geometries')
    return centers, neighbors


def ref_rdm(data, cols, events, method):
    if method not in ('euclidean', 'correlation'):
        # the other measures: the RDM "computed directly from the data columns of that searchlight" is calc_rdm on that
        # one searchlight (calc_rdm itself is another property's primitive); None if the measure is undefined for the data
        from rsatoolbox.data import Dataset
        from rsatoolbox.rdm import calc_rdm
        try:
            one = Dataset(np.asarray(data[:, cols]), obs_descriptors={'events': np.asarray(events)})
            return np.asarray(calc_rdm(one, method=method, descriptor='events').dissimilarities)[0]
        except Exception:
            return None
    ev = np.asarray(events)
    labs = sorted(set(events))
    sub = np.asarray(data[:, cols], dtype=float)
    means = np.array([sub[ev == l].mean(axis=0) for l in labs])
    n = len(labs)
    out = []
    for i in range(n):
        for j in range(i + 1, n):
            a, b = means[i], means[j]
            if method == 'euclidean':
                out.append(float(np.sum((a - b) ** 2) / len(cols)))
            else:
                ac, bc = a - a.mean(), b - b.mean()
                den = np.sqrt(np.sum(ac * ac) * np.sum(bc * bc))
                out.append(float(1 - np.sum(ac * bc) / den) if den > 0 else float('nan'))
    return np.array(out)


def check_rdms(ctx, data, centers, neighbors, events, method, containers=0, redo=True):
    from rsatoolbox.util.searchlight import get_searchlight_RDMs
    c_arg, n_arg = centers, neighbors
    if containers % 3 == 1:
        c_arg = [int(c) for c in np.asarray(centers).ravel()]                       # plain lists instead of arrays
        n_arg = [[int(v) for v in np.asarray(nb).ravel()] for nb in neighbors]
    elif containers % 3 == 2:
        n_arg = tuple(np.asarray(nb).ravel() for nb in neighbors)
    try:
        sl = get_searchlight_RDMs(data, c_arg, n_arg, events, method=method, **({} if containers % 2 else {'verbose': False}))
    except Exception as e:
        if method not in ('euclidean', 'correlation') and any(
                ref_rdm(data, np.asarray(nb).ravel(), events, method) is None for nb in list(neighbors)[:50]):
            ctx.probe('measure_undefined_for_data_not_judged')
            return None
        ctx.violation('sl_ref.rdm', f'get_searchlight_RDMs:raises:{type(e).__name__}',
                      f'get_searchlight_RDMs raised {type(e).__name__}: {e} ({len(centers)} centres, method {method})')
        return None
    n = len(centers)
    if sl.n_rdm != n:
        ctx.violation('sl_ref.rdm', 'get_searchlight_RDMs:count', f'{sl.n_rdm} RDMs for {n} centres')
        return None
    vi = [int(x) for x in np.asarray(sl.rdm_descriptors['voxel_index']).ravel().tolist()]
    if vi != [int(c) for c in np.asarray(centers).ravel().tolist()]:
        bad = [i for i, (a, b) in enumerate(zip(vi, np.asarray(centers).ravel().tolist())) if a != b][:5]
        ctx.violation('sl_ref.rdm', 'get_searchlight_RDMs:voxel_index', f'voxel_index descriptor differs from the centres at positions {bad}')
        return None
    d = np.asarray(sl.dissimilarities)
    for i in range(n):
        exp = ref_rdm(data, np.asarray(neighbors[i]).ravel(), events, method)
        if exp is None:
            ctx.probe('measure_undefined_for_data_not_judged')
            continue
        tol = 1e-4 if data.dtype == np.float32 else 1e-9      # float32 input: the library may compute in single precision
        if d[i].shape != exp.shape or not np.allclose(d[i], exp, rtol=tol, atol=tol, equal_nan=True):
            ctx.violation('sl_ref.rdm', 'get_searchlight_RDMs:values' + (':chunked' if n > 1000 else ''),
                          f'RDM {i} (centre {int(np.asarray(centers).ravel()[i])}, {len(np.asarray(neighbors[i]).ravel())} voxels, {n} centres): '
                          f'{d[i][:6].tolist()} != direct computation {exp[:6].tolist()}')
            return None
    ctx.probe('rdms_checked', n)
    if n > 1000:
        ctx.probe('chunked_branch')
    ctx.nontrivial = True
    if redo and isinstance(events, np.ndarray) and len(events) > 1 and n <= 200:
        # a permutation test: the caller re-labels its own events array in place and asks again -- the RDMs follow the
        # labels as they are now
        before = events.copy()
        try:
            events[:] = np.roll(before, 1)
        except ValueError:
            return sl
        if not np.array_equal(events, before):
            ctx.probe('events_relabelled_in_place')
            again = check_rdms(ctx, data, centers, neighbors, events, method, containers=containers, redo=False)
            events[:] = before
            if again is None:
                return None
        else:
            events[:] = before
    return sl


def tag_eval(models, x, method='corr', theta=None):
    from rsatoolbox.inference import eval_fixed
    r = eval_fixed(models, x, method=method, theta=theta)
    return {'voxel': int(np.asarray(x.rdm_descriptors['voxel_index']).ravel()[0]),
            'evals': np.array(r.evaluations, copy=True), 'n_rdm': x.n_rdm}


def tag_only(models, x, method='corr', theta=None):
    """an evaluation function that copes with any RDM (also an all-NaN one): reports which centre it was given"""
    return {'voxel': int(np.asarray(x.rdm_descriptors['voxel_index']).ravel()[0]),
            'evals': np.array([float(np.sum(np.isfinite(x.dissimilarities)))]), 'n_rdm': x.n_rdm}


def _fp(obj):
    parts = [np.asarray(obj.dissimilarities).tobytes()]
    for dd in (obj.descriptors, obj.rdm_descriptors, obj.pattern_descriptors):
        parts.append(repr(sorted((k, np.asarray(v).tolist()) for k, v in dd.items() if k != 'index')))
    return H(*[p if isinstance(p, str) else p.hex() for p in parts])


def execute(plan, ctx):
    import rsatoolbox  # noqa
    from rsatoolbox.util.searchlight import evaluate_models_searchlight
    ctx.components.update(['real:rsatoolbox.util.searchlight', 'real:rsatoolbox.rdm.calc_rdm', 'real:rsatoolbox.inference.eval_fixed',
                           'real:joblib.Parallel (dispatch, pre-dispatch, batching, ordered retrieval)',
                           'stub:joblib execution backend (seeded single-thread scheduler)', 'stub:joblib.parallel.time (logical clock)'])
    mode = plan['mode']
    ctx.tick('op', mode=mode, shape=plan['shape'], radius=plan['radius'], threshold=plan['threshold'])
    if mode == 'geom_block':
        shape = plan['shape']
        nb = shape[0] * shape[1] * shape[2]
        for mid in plan['mask_ids']:
            mask = np.array([(mid >> k) & 1 for k in range(nb)]).reshape(shape).astype(bool)
            for radius in RADII:
                for thr in THRESH:
                    check_geometry(ctx, mask, radius, thr)
        ctx.behaviour('geom_block', tuple(shape), plan['mask_ids'][0])
        return
    events = plan['events']
    n_obs = len(events)
    if plan.get('events_as') == 'array':
        events = np.array(events)
    if mode == 'chunk':
        n, V = plan['n_centers_big'], plan['n_vox_big']
        data = _data(n_obs, V, plan.get('dtype', 'float64'), plan.get('const_cols', False))
        centers = np.array([(i * 7919 + 3) % 100003 for i in range(n)])      # not monotonic
        neighbors = [np.array(sorted({i % V, (i * 3 + 1) % V, (i * 5 + 2) % V, (i // 7) % V})) for i in range(n)]
        check_rdms(ctx, data, centers, neighbors, events, plan['method'], containers=plan.get('containers', 0))
        ctx.behaviour('chunk', n, plan['method'], V, plan.get('dtype', 'float64'))
        return
    shape = plan['shape']
    mask = np.array(plan['bits']).reshape(shape).astype(plan.get('mask_dtype', 'bool'))      # "binary brain mask": True/False or 0/1
    mv = plan.get('mask_vals', 'binary')
    if mv != 'binary':
        # the mask voxels are the non-zero voxels: an atlas of region labels, a partial-volume map or a signed map with the
        # same support selects the same voxels
        k = np.arange(mask.size).reshape(shape)
        vals = {'labels': (1 + k % 4).astype('int16'), 'frac': (1 + k % 4) / 4.0 - 0.125,
                'signed': np.where(k % 2 == 0, -1.0, 0.5)}[mv]
        mask = np.where(mask != 0, vals, 0).astype(vals.dtype)
        ctx.behaviour('mask_vals', mv)
    lay = plan.get('mask_layout', 'C')
    if lay == 'F':
        mask = np.asfortranarray(mask)                      # same values, Fortran memory order
    elif lay == 'T':
        mask = np.ascontiguousarray(mask.transpose(2, 1, 0)).transpose(2, 1, 0)      # a transposed view
    res = check_geometry(ctx, mask, plan['radius'], plan['threshold'], tag='prehistory' if plan.get('prehistory') else '')
    shape_class = 'x'.join(str(min(s, 4)) for s in shape)
    if mode == 'geom' or res is None:
        ctx.behaviour('geom', shape_class, round(plan['radius'], 2), plan['threshold'], int(mask.sum()) > 0)
        return
    centers, neighbors = res
    if len(centers) == 0:
        ctx.behaviour(mode, 'no-centres', shape_class)
        return
    V = mask.size
    data = _data(n_obs, V, plan.get('dtype', 'float64'), plan.get('const_cols', False))
    sl = check_rdms(ctx, data, centers, neighbors, events, plan['method'], containers=plan.get('containers', 0))
    if mode == 'rdm' or sl is None:
        ctx.behaviour('rdm', shape_class, round(plan['radius'], 2), plan['threshold'], plan['method'], len(centers) > 1000)
        return
    # ---------------- eval: models over searchlights under the scheduler seam
    from rsatoolbox.model import ModelFixed, ModelWeighted
    from rsatoolbox.inference import eval_fixed
    n_cond = len(set(events))
    npair = n_cond * (n_cond - 1) // 2
    mk = plan.get('model_kind', 'fixed')
    models, theta = [], []
    for m in range(plan['n_models']):
        if mk == 'weighted' or (mk == 'mixed' and m % 2 == 0):
            # a flexible model: the evaluation depends on the parameters handed through to every task
            models.append(ModelWeighted('mod%d' % m, np.array([[(H('mod', m, b, p) % 97) / 8.0 + 0.25 for p in range(npair)]
                                                                for b in range(3)])))
            theta.append(np.array([(H('theta', plan.get('theta_salt', 0), m, b) % 9) / 4.0 + 0.25 for b in range(3)]))
        else:
            models.append(ModelFixed('mod%d' % m, np.array([(H('mod', m, p) % 97) / 8.0 + 0.25 for p in range(npair)])))
            theta.append(None)
    if not plan.get('theta_salt', 0):
        theta = None
    if mk == 'single':
        models = models[0]                      # "can also be a single model"
        theta = None
    mlist = models if isinstance(models, list) else [models]
    # correlation RDMs from single-voxel searchlights are NaN: keep only evaluable centres for the evaluation part
    ok = [i for i in range(sl.n_rdm) if np.all(np.isfinite(sl.dissimilarities[i])) and np.ptp(sl.dissimilarities[i]) > 0]
    efn = tag_eval
    if plan.get('eval_fn') == 'tag_only':
        efn = tag_only
        ok = list(range(sl.n_rdm))       # every centre, also those whose RDM is all NaN
    if len(ok) < 2:
        ctx.behaviour('eval', 'too-few-evaluable', shape_class)
        return
    pick = plan.get('centre_pick', 'all')
    if pick == 'subset' and len(ok) > 3:
        ok = ok[::2] + ok[1:2]          # some centres only (the RDMs object then carries non-contiguous index values)
        ok = sorted(set(ok))
    sl_ok = sl.subset('index', ok) if len(ok) < sl.n_rdm else sl
    if pick == 'permuted' and sl_ok.n_rdm > 2:
        perm = list(range(sl_ok.n_rdm))[::-1]
        sl_ok = sl_ok[perm]            # centres in another order
    fp_before = (_fp(sl_ok), [_fp(m.rdm_obj) for m in mlist])
    em = plan['eval_method']
    reference = []
    for i in range(sl_ok.n_rdm):
        x = sl_ok[i]
        if efn is tag_only:
            reference.append({k: v for k, v in tag_only(models, x).items() if k != 'n_rdm'})
        else:
            reference.append({'voxel': int(np.asarray(x.rdm_descriptors['voxel_index']).ravel()[0]),
                              'evals': np.array(eval_fixed(models, x, method=em, theta=theta).evaluations, copy=True)})
    if plan.get('peek'):
        for _ in sl_ok:                # an earlier look at the first searchlight: an iteration abandoned after one item
            break
    s = plan['sched']
    outs = {}
    sched = Scheduler(ctx, s['seed'], policy=s['policy'], batch_size=s['batch'], straggler=s['straggler'])
    try:
        with sched:
            r_ = evaluate_models_searchlight(sl_ok, models, efn, method=em, theta=theta, n_jobs=s['n_jobs'])
            outs['sim'] = r_ if isinstance(r_, list) else list(r_)      # a lazily returned result is consumed under the scheduler
    except Stall as e:
        ctx.violation('sl_ref.progress', 'evaluate_models_searchlight:stall', f'evaluate_models_searchlight did not return: {e}')
        return
    except Exception as e:
        ctx.violation('sl_ref.eval', f'evaluate_models_searchlight:raises:{type(e).__name__}',
                      f'evaluate_models_searchlight raised {type(e).__name__}: {e} (n_jobs={s["n_jobs"]}, policy={s["policy"]})')
        return
    outs['seq'] = evaluate_models_searchlight(sl_ok, models, efn, method=em, theta=theta, n_jobs=1)
    for name, out in outs.items():
        out = list(out) if not isinstance(out, list) else out
        if len(out) != len(reference):
            ctx.violation('sl_ref.eval', f'evaluate_models_searchlight:count:{name}',
                          f'{len(out)} results for {len(reference)} centres (n_jobs={s["n_jobs"] if name == "sim" else 1})')
            return
        for i, (g, e) in enumerate(zip(out, reference)):
            if g['voxel'] != e['voxel'] or _nb(g['evals']) != _nb(e['evals']):
                what = 'order' if g['voxel'] != e['voxel'] else 'values'
                ctx.violation('sl_ref.eval', f'evaluate_models_searchlight:{what}:{name}',
                              f'result {i} is the evaluation of centre {g["voxel"]}, expected centre {e["voxel"]}'
                              f'{"" if what == "order" else " (right centre, but not the evaluation of that centre with the requested models, method and theta)"} '
                              f'(n_jobs={s["n_jobs"] if name == "sim" else 1}, batch={s["batch"]}, policy={s["policy"]}, '
                              f'straggler={s["straggler"]}, completion order {sched.completion_order[:20]})')
                return
    if (_fp(sl_ok), [_fp(m.rdm_obj) for m in mlist]) != fp_before:
        ctx.violation('sl_ref.eval', 'evaluate_models_searchlight:mutates-inputs', 'models or searchlight RDMs changed during evaluation')
        return
    if sched.queue:
        ctx.violation('sl_ref.progress', 'evaluate_models_searchlight:unfinished', f'{len(sched.queue)} batches still queued at return')
        return
    ctx.probe('evaluations_checked', len(reference))
    ctx.probe('sched_decisions', sched.n_decisions)
    perm = H(sched.completion_order) % 10 ** 6
    inorder = sched.completion_order == sorted(sched.completion_order)
    if not inorder:
        ctx.probe('out_of_order_completions')
    ctx.behaviour('eval', s['n_jobs'], s['batch'], s['policy'], s['straggler'], perm, mk, theta is not None)
