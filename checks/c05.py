"""C05 -- folds partition the data; test data never influence fitting.

Oracle A (partition reference model) on the (train, test, ceil) sets of every fold generator, with every
shuffle served by the RNG seam.  Oracle B (non-interference) by record -> replay of the identical draw history
under perturbed data, observed through wrapping fitters inside rsatoolbox.inference.crossval."""
from __future__ import annotations
from collections import Counter
import itertools

import numpy as np

from sim.kernel import HarnessError, StopRun
from sim.rngseam import RngSeam, SHUFFLE_FAULTS, RANDINT_FAULTS
from sim import gen
from sim.gen import norm, normlist
from sim.twins.rdms_ref import check_assoc, uid_seqs

PROPERTY = 'C05'
RULE = ('seeded plans: identity-encoded RDM stack (optionally a bootstrap sample of it, so groups have copies) -> one of '
        'the eight fold generators with k / group size / n_rdm / n_pattern / n_cv over the admissible range and '
        'random in {False,True}; every shuffle served by the RNG seam (identity, reversed, rotated, swapped, random; '
        'all 24 permutations enumerated on 4 groups in directed scenarios). Mode A checks the partition model; mode B '
        'records thetas through wrapping fitters in crossval and replays the identical draws under data perturbed on '
        'test-only / train-only entries. Non-trivial = at least one fold set checked; distinct = distinct '
        '(mode, generator, k-class, grouping kinds, shuffle fault, copies?) signatures.')
ASSUMPTIONS = ['numpy global RNG is the only entropy source of the fold generators and fitters (seam)',
               'reference partition model in checks/c05.py and sim/twins/rdms_ref.py is correct',
               'compare()/fitters are trusted primitives here (their numerical failure is not judged)']
BUDGET = {'quick': {'runs': 4000, 'cap_s': 60, 'wall_s': 100, 'chunk': 25},
          'thorough': {'runs': 60000, 'cap_s': 90, 'wall_s': 1200, 'chunk': 100}}

GENS = ['sets_leave_one_out_pattern', 'sets_leave_one_out_rdm', 'sets_k_fold', 'sets_k_fold_rdm',
        'sets_k_fold_pattern', 'sets_of_k_rdm', 'sets_of_k_pattern', 'sets_random']
RDM_ONLY = ('sets_leave_one_out_rdm', 'sets_k_fold_rdm', 'sets_of_k_rdm')


def _n_groups(spec, axis):
    d = spec['rdm_desc' if axis == 'rdm' else 'pat_desc'].get('grp')
    return len(set(d['values'])) if d else len(spec['rdm_uids' if axis == 'rdm' else 'cond_uids'])



def _nb(x):
    """bytes of a numeric array with every NaN in one canonical form (the sign bit / payload of a NaN is not a value)"""
    x = np.asarray(x)
    return np.where(np.isnan(x), np.nan, x).tobytes() if x.dtype.kind in 'fc' else x.tobytes()


def gen_plan(rng, tier, index):
    big = tier == 'thorough'
    mode = 'B' if rng.chance(0.22) else ('C' if rng.chance(0.1) else 'A')
    if mode == 'C':
        # folds generated *inside* the bootstrap-cross-validation routines, judged by the descriptors the routine was given
        spec = gen.gen_rdms_spec(rng, n_rdm=(3, 8), n_cond=(6, 10), nan_prob=0.0, kinds=('unique', 'groups', 'groups'), allow_allsame=False)
        return {'mode': 'C', 'spec': spec, 'gen': rng.pick(['bootstrap_crossval', 'eval_dual_bootstrap']),
                'rdm_desc': rng.pick(['grp', 'grp', 'index', 'uid']), 'pat_desc': rng.pick(['grp', 'grp', 'index', 'uid']),
                'k_rdm': rng.pick([1, 2, 2, 3]), 'k_pattern': rng.pick([1, 2, 2, 3]), 'N': rng.randint(2, 4), 'n_cv': rng.pick([1, 1, 2]),
                'boot_type': rng.pick(['both', 'rdm', 'pattern']),
                'faults': {'rate': rng.pick([0.0, 0.3]), 'kinds': rng.subset(SHUFFLE_FAULTS + ['two_unique', 'perm', 'identity'], 0.3, 1.0)}}
    if mode == 'B':
        spec = gen.gen_rdms_spec(rng, n_rdm=(3, 7), n_cond=(7, 11), nan_prob=0.0,
                                 kinds=('unique', 'groups'), allow_allsame=False)
        # enough groups so that folds stay fit-able
        for ax, key in (('rdm', 'rdm_desc'), ('pat', 'pat_desc')):
            if rng.chance(0.6):
                n = len(spec['rdm_uids'] if ax == 'rdm' else spec['cond_uids'])
                spec[key]['grp'] = gen.gen_grouping(rng, n, kinds=('unique',))
    elif rng.chance(0.06):
        # many groups with repeated (string / int) labels: look-ups with long value lists
        spec = gen.gen_rdms_spec(rng, n_rdm=(19, 34), n_cond=(19, 30), nan_prob=0.0, kinds=('groups',), allow_allsame=False)
        for key, n in (('rdm_desc', len(spec['rdm_uids'])), ('pat_desc', len(spec['cond_uids']))):
            labs = [i // 2 for i in range(n)]          # groups of two (one of one): at least 10, typically 10-17 groups
            if rng.chance(0.7):
                labs = [i * 3 // 4 for i in range(n)]  # groups of 1-2: about 3n/4 groups
            rng.shuffle(labs)
            typ = rng.pick(['str', 'str', 'int', 'float'])
            vals = ['sub-%02d' % x for x in labs] if typ == 'str' else ([x + 0.5 for x in labs] if typ == 'float' else labs)
            spec[key]['grp'] = {'values': vals, 'container': rng.pick(['list', 'array']), 'kind': 'groups', 'type': typ}
    else:
        spec = gen.gen_rdms_spec(rng, n_rdm=(1, 8 if big else 7), n_cond=(3, 12 if big else 9), nan_prob=0.15)
    g = rng.pick(GENS)
    plan = {'mode': mode, 'spec': spec, 'gen': g,
            'rdm_desc': rng.pick(['grp', 'grp', 'index', 'uid']),
            'pat_desc': rng.pick(['grp', 'grp', 'index', 'uid'] + (['pos'] if 'pos' in spec['pat_desc'] else [])),
            'pre_boot': rng.pick([None, None, 'both', 'rdm', 'pattern']) if mode == 'A' else rng.pick([None, None, 'rdm']),
            'random': rng.chance(0.6),
            'k_rdm': rng.randint(1, 6), 'k_pattern': rng.randint(1, 6), 'k': rng.randint(1, 5),
            'n_rdm': rng.randint(0, 4), 'n_pattern': rng.randint(0, 5), 'n_cv': rng.randint(1, 4),
            'use_default_k': rng.chance(0.15),
            'prehistory': rng.pick([None, None, None, 'subset_reorder', 'subsample_sort', 'item_reorder', 'subset_pattern_sort', 'self_fold_sort', 'self_fold_sort', 'self_fold_relabel', 'self_fold_relabel']) if mode == 'A' else None,
            'faults': {'rate': rng.pick([0.0, 0.3, 0.6]),
                       'kinds': rng.subset(SHUFFLE_FAULTS + ['all_same', 'two_unique', 'perm', 'identity'], 0.3, 1.0)}}
    if mode == 'B':
        method = rng.pick(['cosine', 'corr', 'cosine', 'spearman'])
        kinds = ['select', 'interpolate'] if method == 'spearman' else \
            ['weighted_regress', 'select', 'interpolate', 'weighted_regress',
             'weighted_optimize' if rng.chance(0.1) else 'weighted_ridge']
        plan.update({'method': method, 'models': [rng.pick(kinds) for _ in range(rng.randint(1, 2))],
                     'n_basis': rng.pick([3, 3, 4, 5, 6])})      # length of the chain of an interpolating / selecting model
        plan['cv_ceil'] = rng.pick(['given_off', 'given_off', 'none_on', 'given_on'])      # how crossval is asked about noise ceilings
        if rng.chance(0.15):
            plan['fit_fault'] = rng.randint(1, 5)      # the k-th fit (not the first) fails with LinAlgError
    return plan


def directed_plans(tier):
    plans = []
    spec = {'rdm_uids': [4, 9, 2, 7], 'cond_uids': [7, 3, 12, 5, 9, 1, 20, 14], 'nan_cells': [], 'measure': 'euclidean',
            'descriptors': {},
            'rdm_desc': {'grp': {'values': ['b', 'a', 'c', 'd'], 'container': 'list'}},
            'pat_desc': {'grp': {'values': [30, 10, 20, 10, 40, 30, 20, 40], 'container': 'array'}}}
    base = {'mode': 'A', 'spec': spec, 'rdm_desc': 'grp', 'pat_desc': 'grp', 'pre_boot': None, 'random': True,
            'k_rdm': 2, 'k_pattern': 2, 'k': 2, 'n_rdm': 1, 'n_pattern': 1, 'n_cv': 2, 'use_default_k': False,
            'faults': {'rate': 0, 'kinds': []}}
    for perm in itertools.permutations(range(4)):
        for k in (2, 3):
            plans.append({**base, 'gen': 'sets_k_fold_pattern', 'k': k,
                          'draw_script': {'0': {'fn': 'shuffle', 'shape': [4], 'result': list(perm)}}})
            plans.append({**base, 'gen': 'sets_k_fold_rdm', 'k_rdm': k,
                          'draw_script': {'0': {'fn': 'shuffle', 'shape': [4], 'result': list(perm)}}})
    for g in GENS:
        plans.append({**base, 'gen': g, 'random': False})
    # the fold arithmetic for *every* (number of groups, k): one directed plan per group count
    for n in range(2, 65 if tier == 'quick' else 130):
        plans.append({'mode': 'G', 'n': n, 'gen': 'grid', 'spec': None, 'faults': {'rate': 0, 'kinds': []}})
    return plans


def summarize(plan):
    keys = ['mode', 'gen', 'rdm_desc', 'pat_desc', 'pre_boot', 'random', 'k_rdm', 'k_pattern', 'k', 'n_rdm', 'n_pattern',
            'n_cv', 'faults', 'models', 'method']
    s = {k: plan[k] for k in keys if k in plan}
    if plan.get('spec') is None:
        return s
    s['n_rdm_src'] = len(plan['spec']['rdm_uids'])
    s['n_cond_src'] = len(plan['spec']['cond_uids'])
    s['rdm_grp'] = plan['spec']['rdm_desc'].get('grp', {}).get('values')
    s['pat_grp'] = plan['spec']['pat_desc'].get('grp', {}).get('values')
    return s


def shrink_candidates(plan):
    if plan.get('mode') == 'G':
        return      # one group count per plan: nothing to shrink
    from checks.c09 import _drop
    spec = plan['spec']
    if plan.get('pre_boot'):
        yield {**plan, 'pre_boot': None}
    if plan['faults'].get('rate', 0) > 0:
        yield {**plan, 'faults': {'rate': 0.0, 'kinds': []}}
    if plan.get('random'):
        yield {**plan, 'random': False}
    if len(spec['rdm_uids']) > 1:
        for drop in range(len(spec['rdm_uids'])):
            yield {**plan, 'spec': _drop(spec, 'rdm', drop)}
    if len(spec['cond_uids']) > 3:
        for drop in range(len(spec['cond_uids'])):
            yield {**plan, 'spec': _drop(spec, 'cond', drop)}
    for key in ('k_rdm', 'k_pattern', 'k', 'n_cv', 'n_rdm', 'n_pattern'):
        if plan.get(key, 0) > 1:
            yield {**plan, key: plan[key] - 1}
    if plan.get('models') and len(plan['models']) > 1:
        yield {**plan, 'models': plan['models'][:1]}


# ------------------------------------------------------------------------------------------- generator call
def _group_info(obj, axis, desc):
    if axis == 'rdm':
        gv = normlist(obj.rdm_descriptors[desc])
        uids = normlist(obj.rdm_descriptors['uid'])
    else:
        gv = normlist(obj.pattern_descriptors[desc])
        uids = normlist(obj.pattern_descriptors['uid'])
    return sorted(set(gv), key=lambda x: (str(type(x)), x)), gv, uids


def _call_generator(plan, src):
    """returns (args_used dict, result tuple, info) with admissible arguments derived from the plan.
    info: which axes are folded and with how many folds; None -> not admissible (skipped)"""
    import rsatoolbox.inference as inf
    from rsatoolbox.inference import crossvalsets as cvs
    g = plan['gen']
    rd, pdn = plan['rdm_desc'], plan['pat_desc']
    Gr = len(set(normlist(src.rdm_descriptors[rd])))
    Gp = len(set(normlist(src.pattern_descriptors[pdn])))
    info = {'gen': g, 'Gr': Gr, 'Gp': Gp, 'fold_rdm': 1, 'fold_pat': 1, 'exhaustive': g != 'sets_random'}
    if g == 'sets_leave_one_out_pattern':
        if Gp < 2:
            return None, None   # leaving the only group out leaves no training conditions: not admissible
        info['fold_pat'] = Gp
        res = cvs.sets_leave_one_out_pattern(src, pdn)
    elif g == 'sets_leave_one_out_rdm':
        info['fold_rdm'] = Gr
        res = cvs.sets_leave_one_out_rdm(src, rd)
    elif g == 'sets_k_fold':
        kr = 1 + (plan['k_rdm'] - 1) % Gr
        kp = 1 + (plan['k_pattern'] - 1) % Gp
        if plan.get('use_default_k'):
            from rsatoolbox.util.inference_util import default_k_pattern, default_k_rdm
            kr_d, kp_d = default_k_rdm(Gr), default_k_pattern(Gp)
            if kr_d > Gr or kp_d > Gp:
                return None, None
            info['fold_rdm'], info['fold_pat'] = kr_d, kp_d
            res = cvs.sets_k_fold(src, random=plan['random'], pattern_descriptor=pdn, rdm_descriptor=rd)
        else:
            info['fold_rdm'], info['fold_pat'] = kr, kp
            res = cvs.sets_k_fold(src, k_rdm=kr, k_pattern=kp, random=plan['random'],
                                  pattern_descriptor=pdn, rdm_descriptor=rd)
    elif g == 'sets_k_fold_rdm':
        kr = 1 + (plan['k_rdm'] - 1) % Gr
        if kr < 2 and Gr >= 2:
            kr = 2
        if kr < 2:
            return None, None   # a single fold over RDMs leaves no training data: not admissible
        info['fold_rdm'] = kr
        res = cvs.sets_k_fold_rdm(src, k_rdm=kr, random=plan['random'], rdm_descriptor=rd)
    elif g == 'sets_k_fold_pattern':
        kp = 1 + (plan['k_pattern'] - 1) % Gp
        info['fold_pat'] = kp
        res = cvs.sets_k_fold_pattern(src, pattern_descriptor=pdn, k=kp, random=plan['random'])
    elif g == 'sets_of_k_rdm':
        if Gr < 2:
            return None, None
        k = 1 + (plan['k'] - 1) % (Gr // 2)
        info['fold_rdm'] = Gr // k
        info['group_size'] = k
        res = cvs.sets_of_k_rdm(src, rdm_descriptor=rd, k=k, random=plan['random'])
    elif g == 'sets_of_k_pattern':
        if Gp < 2:
            return None, None
        k = 1 + (plan['k'] - 1) % (Gp // 2)
        info['fold_pat'] = Gp // k
        info['group_size'] = k
        res = cvs.sets_of_k_pattern(src, pattern_descriptor=pdn, k=k, random=plan['random'])
    elif g == 'sets_random':
        if Gr < 1 or Gp < 1:
            return None, None
        nr = plan['n_rdm'] % Gr          # 0 .. Gr-1
        npat = plan['n_pattern'] % Gp    # 0 .. Gp-1
        info['n_rdm'], info['n_pattern'], info['n_cv'] = nr, npat, plan['n_cv']
        info['fold_rdm'] = 2 if nr > 0 else 1
        info['fold_pat'] = 2 if npat > 0 else 1
        res = cvs.sets_random(src, n_rdm=nr, n_pattern=npat, n_cv=plan['n_cv'],
                              pattern_descriptor=pdn, rdm_descriptor=rd)
    else:
        raise HarnessError('unknown generator ' + g)
    return res, info


def _content(obj, rd, pdn):
    """(rdm group values present, pattern group values present, rdm uid multiset, cond uid multiset)"""
    _, rgv, ruids = _group_info(obj, 'rdm', rd)
    _, pgv, puids = _group_info(obj, 'pattern', pdn)
    return set(rgv), set(pgv), Counter(ruids), Counter(puids)


def _full_groups(src_gv, src_uids, groups):
    c = Counter()
    for g, u in zip(src_gv, src_uids):
        if g in groups:
            c[u] += 1
    return c


def oracle_A(ctx, plan, src, tabs, res, info, value_fn=None, prefix=''):
    g = plan['gen']
    rd, pdn = plan['rdm_desc'], plan['pat_desc']
    sig = prefix + g
    try:
        train_set, test_set, ceil_set = res
    except Exception:
        ctx.violation('folds_ref.shape', f'{sig}:shape', f'{g} did not return (train, test, ceil)')
        return
    if len(train_set) != len(test_set) or (ceil_set is not None and len(ceil_set) != len(test_set)):
        ctx.violation('folds_ref.shape', f'{sig}:shape', f'{g}: train/test/ceil lists differ in length')
        return
    _, s_rgv, s_ruids = _group_info(src, 'rdm', rd)
    _, s_pgv, s_puids = _group_info(src, 'pattern', pdn)
    all_r, all_p = set(s_rgv), set(s_pgv)
    test_r_sets, test_p_sets, combos = [], [], []
    for f in range(len(train_set)):
        tr, te = train_set[f], test_set[f]
        ce = ceil_set[f] if ceil_set is not None else None
        for name, part in (('train', tr), ('test', te), ('ceil', ce)):
            if part is None:
                continue
            probs = check_assoc(part[0], *tabs, **({'value_fn': value_fn} if value_fn else {}),
                                **({'ignore_keys': ('index', 'grp')} if plan.get('prehistory') == 'self_fold_relabel' else {}))
            if probs:
                ctx.violation('folds_ref.assoc', f'{sig}:{name}:{probs[0][0]}',
                              f'{g} fold {f} {name} set: {probs[0][1]}')
                return
        tr_r, tr_p, tr_ru, tr_pu = _content(tr[0], rd, pdn)
        te_r, te_p, te_ru, te_pu = _content(te[0], rd, pdn)
        # members and copies of a group all on the same side: every object holds whole groups
        for name, (rg, pg, ru, pu) in (('train', (tr_r, tr_p, tr_ru, tr_pu)), ('test', (te_r, te_p, te_ru, te_pu))):
            if ru != _full_groups(s_rgv, s_ruids, rg):
                ctx.violation('folds_ref.whole_groups', f'{sig}:{name}:rdm-groups-split',
                              f'{g} fold {f}: {name} set holds RDM uids {sorted(ru.items())} which is not the whole of '
                              f'its RDM groups {sorted(map(str, rg))} (members/copies: {sorted(_full_groups(s_rgv, s_ruids, rg).items())})')
                return
            if pu != _full_groups(s_pgv, s_puids, pg):
                ctx.violation('folds_ref.whole_groups', f'{sig}:{name}:pattern-groups-split',
                              f'{g} fold {f}: {name} set holds condition uids {sorted(pu.items())} which is not the whole '
                              f'of its condition groups {sorted(map(str, pg))}')
                return
        # bootstrap copies (same unique id) must be on the same side, whatever descriptor is used for grouping
        if info['fold_rdm'] > 1 and set(tr_ru) & set(te_ru):
            ctx.violation('folds_ref.copies', f'{sig}:rdm-copies-split',
                          f'{g} fold {f}: copies of RDM(s) {sorted(set(tr_ru) & set(te_ru))} are in both the training and the test set '
                          f'(grouping by {rd!r})')
            return
        if info['fold_pat'] > 1 and set(tr_pu) & set(te_pu):
            ctx.violation('folds_ref.copies', f'{sig}:pattern-copies-split',
                          f'{g} fold {f}: copies of condition(s) {sorted(set(tr_pu) & set(te_pu))} are in both the training and the test set '
                          f'(grouping by {pdn!r})')
            return
        if info['fold_rdm'] > 1 and tr_r & te_r:
            ctx.violation('folds_ref.disjoint', f'{sig}:rdm-overlap',
                          f'{g} fold {f}: RDM groups {sorted(map(str, tr_r & te_r))} are in both training and test set')
            return
        if info['fold_pat'] > 1 and tr_p & te_p:
            ctx.violation('folds_ref.disjoint', f'{sig}:pattern-overlap',
                          f'{g} fold {f}: condition groups {sorted(map(str, tr_p & te_p))} are in both training and test set')
            return
        if info['fold_rdm'] == 1 and (tr_r != all_r or te_r != all_r):
            ctx.violation('folds_ref.single_fold', f'{sig}:rdm-single',
                          f'{g} fold {f}: RDM axis not cross-validated but sets hold {len(tr_r)}/{len(te_r)} of {len(all_r)} RDM groups')
            return
        if info['fold_pat'] == 1 and (tr_p != all_p or te_p != all_p):
            ctx.violation('folds_ref.single_fold', f'{sig}:pattern-single',
                          f'{g} fold {f}: condition axis not cross-validated but sets hold {len(tr_p)}/{len(te_p)} of {len(all_p)} groups')
            return
        if info['fold_rdm'] > 1 and info['exhaustive'] and (tr_r | te_r) != all_r:
            ctx.violation('folds_ref.cover', f'{sig}:rdm-cover', f'{g} fold {f}: train+test RDM groups do not cover all groups')
            return
        if info['fold_pat'] > 1 and info['exhaustive'] and (tr_p | te_p) != all_p:
            ctx.violation('folds_ref.cover', f'{sig}:pattern-cover', f'{g} fold {f}: train+test condition groups do not cover all groups')
            return
        if (not te_r) or (not te_p) or (not tr_r) or (not tr_p):
            ctx.violation('folds_ref.empty', f'{sig}:empty', f'{g} fold {f}: an empty training or test side on admissible arguments')
            return
        # advertised pattern index lists
        for name, part, pg in (('train', tr, tr_p), ('test', te, te_p)):
            adv = normlist(part[1])
            if g in RDM_ONLY:
                ok = adv == list(range(part[0].n_cond)) or set(adv) == set(normlist(part[0].pattern_descriptors['index']))
            else:
                ok = set(adv) == pg and len(adv) == len(set(adv))
            if not ok:
                ctx.violation('folds_ref.advertised', f'{sig}:{name}:advertised',
                              f'{g} fold {f}: advertised {name} pattern indices {adv} do not describe the conditions present '
                              f'(groups {sorted(map(str, pg))})')
                return
        # ceiling set = training RDMs at the test conditions
        if ce is not None:
            _, _, ce_ru, ce_pu = _content(ce[0], rd, pdn)
            if ce_ru != tr_ru or ce_pu != te_pu:
                ctx.violation('folds_ref.ceil', f'{sig}:ceil',
                              f'{g} fold {f}: ceiling set holds RDM uids {sorted(ce_ru.items())} / condition uids '
                              f'{sorted(ce_pu.items())}; training RDMs are {sorted(tr_ru.items())}, test conditions {sorted(te_pu.items())}')
                return
        elif g != 'sets_k_fold_pattern' and g != 'sets_of_k_pattern':
            ctx.violation('folds_ref.ceil', f'{sig}:ceil-none', f'{g}: ceil_set is None but the scheme has training RDMs for a ceiling')
            return
        test_r_sets.append(frozenset(te_r))
        test_p_sets.append(frozenset(te_p))
        combos.append((frozenset(te_r), frozenset(te_p)))
    nf = len(train_set)
    if info['exhaustive']:
        dr = sorted(set(test_r_sets), key=lambda s: sorted(map(str, s)))
        dp = sorted(set(test_p_sets), key=lambda s: sorted(map(str, s)))
        if nf != info['fold_rdm'] * info['fold_pat']:
            ctx.violation('folds_ref.count', f'{sig}:fold-count',
                          f'{g}: {nf} folds returned, {info["fold_rdm"]} x {info["fold_pat"]} requested')
            return
        # RDM test folds partition the RDM groups; within each RDM fold the condition test folds partition the
        # condition groups (each RDM fold may use its own random assignment of conditions)
        by_r = {}
        for rs, ps in combos:
            by_r.setdefault(rs, []).append(ps)
        parts = [('rdm', dr, all_r, info['fold_rdm'])]
        for rs in dr:
            parts.append(('pattern', by_r[rs], all_p, info['fold_pat']))
        for axis, distinct, allg, kreq in parts:
            cnt = Counter()
            for s_ in distinct:
                cnt.update(s_)
            if set(cnt) != allg or any(v != 1 for v in cnt.values()):
                ctx.violation('folds_ref.partition', f'{sig}:{axis}:not-a-partition',
                              f'{g}: test folds over the {axis} axis do not put every group in exactly one test fold: '
                              f'{[sorted(map(str, s_)) for s_ in distinct]} (groups {sorted(map(str, allg))})')
                return
            if len(distinct) != kreq:
                ctx.violation('folds_ref.partition', f'{sig}:{axis}:fold-count',
                              f'{g}: {len(distinct)} distinct {axis} test folds, {kreq} requested')
                return
            sizes = [len(s_) for s_ in distinct]
            if max(sizes) - min(sizes) > 1:
                ctx.violation('folds_ref.partition', f'{sig}:{axis}:unbalanced',
                              f'{g}: {axis} test fold sizes {sizes} differ by more than one')
                return
        if len(set(combos)) != nf:
            ctx.violation('folds_ref.partition', f'{sig}:duplicate-fold', f'{g}: the same (RDM fold, condition fold) pair occurs twice')
            return
    else:
        if nf != info['n_cv']:
            ctx.violation('folds_ref.count', f'{sig}:fold-count', f'{g}: {nf} folds returned, n_cv={info["n_cv"]}')
            return
        for f in range(nf):
            if info['n_rdm'] > 0 and len(test_r_sets[f]) != info['n_rdm']:
                ctx.violation('folds_ref.count', f'{sig}:test-size', f'{g}: test fold {f} has {len(test_r_sets[f])} RDM groups, n_rdm={info["n_rdm"]}')
                return
            if info['n_pattern'] > 0 and len(test_p_sets[f]) != info['n_pattern']:
                ctx.violation('folds_ref.count', f'{sig}:test-size', f'{g}: test fold {f} has {len(test_p_sets[f])} condition groups, n_pattern={info["n_pattern"]}')
                return
    ctx.probe('fold_sets_checked')
    ctx.probe('folds_checked', nf)


# ------------------------------------------------------------------------------------------- pipeline
def _prehistory(plan, src):
    """the data object has a past: an object derived from it was re-ordered in place (documented in-place operations on
    *another* object) before the folds are made"""
    ph = plan.get('prehistory')
    if not ph:
        return
    ru, cu = list(src.rdm_descriptors['uid']), list(src.pattern_descriptors['uid'])
    try:
        if ph == 'subset_reorder':
            child = src.subset('uid', ru[::2] if len(ru) > 1 else ru)
            child.reorder(list(range(child.n_cond))[::-1])
        elif ph == 'subsample_sort':
            child = src.subsample('uid', ru[:1] + ru)
            child.sort_by(uid='alpha')
        elif ph == 'self_fold_sort':
            # the data object itself was folded before and then sorted in place by another descriptor (documented in-place
            # operation on the object the folds are made from: its labels move with its values)
            from rsatoolbox.inference import sets_k_fold_pattern, sets_leave_one_out_rdm
            try:
                sets_k_fold_pattern(src, pattern_descriptor='index', k=2, random=False)
                src.subset_pattern('index', [0, 1])
                src.subset('index', [0])
            except Exception:
                pass
            src.sort_by(uid='alpha')
            return
        elif ph == 'self_fold_relabel':
            # the data object itself was folded before, then the user renamed its groups (same members, new names): the
            # folds made now follow the labels as they are now
            try:
                _call_generator(plan, src)
            except Exception:
                pass
            for dd in (src.rdm_descriptors, src.pattern_descriptors):
                if 'grp' in dd:
                    old_v = list(dd['grp']) if not isinstance(dd['grp'], np.ndarray) else dd['grp'].tolist()
                    new_v = [(v + 'q') if isinstance(v, str) else (v + 100) for v in old_v]
                    dd['grp'] = np.array(new_v) if isinstance(dd['grp'], np.ndarray) else new_v
            return
        elif ph == 'item_reorder':
            child = src[0]
            child.reorder(list(range(1, child.n_cond)) + [0])
        else:
            child = src.subset_pattern('uid', cu[1:] if len(cu) > 3 else cu)
            child.sort_by(uid='alpha')
    except Exception as e:
        raise HarnessError(f'prehistory {ph} raised {e!r}')


def _pre_boot(plan, src):
    from rsatoolbox.inference import bootstrap_sample, bootstrap_sample_rdm, bootstrap_sample_pattern
    pb = plan.get('pre_boot')
    rd, pdn = plan['rdm_desc'], plan['pat_desc']
    if pb == 'both':
        return bootstrap_sample(src, rdm_descriptor=rd, pattern_descriptor=pdn)[0]
    if pb == 'rdm':
        return bootstrap_sample_rdm(src, rdm_descriptor=rd)[0]
    if pb == 'pattern':
        return bootstrap_sample_pattern(src, pattern_descriptor=pdn)[0]
    return src


class SpyFitter:
    def __init__(self, inner, log, scripted=None, fault=None):
        self.inner, self.log, self.scripted, self.fault = inner, log, scripted, fault

    def __call__(self, model, data, method='cosine', pattern_idx=None, pattern_descriptor=None, sigma_k=None):
        n = len(self.log)
        if self.fault is not None and not self.fault['fired'] and self.fault['attempts'] == self.fault['call']:
            # injected fault: the fit of this fold fails the way a singular design makes it fail
            self.fault['fired'] = True
            self.fault['attempts'] += 1
            raise np.linalg.LinAlgError('Singular matrix')
        if self.fault is not None:
            self.fault['attempts'] += 1
        if self.scripted is not None:
            theta = self.scripted[n]
        else:
            theta = self.inner(model, data, method=method, pattern_idx=pattern_idx,
                               pattern_descriptor=pattern_descriptor, sigma_k=sigma_k)
        self.log.append({'model': model.name, 'data': data, 'raw': theta,
                         'fp': (np.asarray(data.dissimilarities).tobytes(), tuple(uid_seqs(data)[0]), tuple(uid_seqs(data)[1]),
                                tuple(normlist(pattern_idx)) if pattern_idx is not None else None),
                         'theta': np.array(theta, copy=True)})
        return theta


def _spy_predict(model, used):
    """record the theta with which crossval itself asks the model for a prediction"""
    import sys
    orig = model.predict_rdm

    def predict_rdm(theta=None):
        caller = sys._getframe(1).f_globals.get('__name__', '?')
        if caller == 'rsatoolbox.inference.evaluate':
            used.append((model.name, np.array(theta, copy=True)))
        return orig(theta)
    model.predict_rdm = predict_rdm


def _make_models(plan):
    import rsatoolbox
    from rsatoolbox.model import ModelWeighted, ModelSelect, ModelInterpolate
    from rsatoolbox.model.fitter import Fitter
    from rsatoolbox.model.fitter import fit_regress, fit_regress_nn, fit_optimize, fit_select, fit_interpolate
    models, fitters = [], []
    for i, kind in enumerate(plan['models']):
        basis = gen.build_model_rdms(plan['spec'], 2 if kind.startswith('weighted') else plan.get('n_basis', 3), salt='m%d' % i)
        if kind.startswith('weighted'):
            m = ModelWeighted('m%d' % i, basis)
            f = {'weighted_regress': fit_regress, 'weighted_nn': fit_regress_nn, 'weighted_optimize': fit_optimize,
                 'weighted_ridge': Fitter(fit_regress, ridge_weight=0.5)}[kind]
        elif kind == 'select':
            m, f = ModelSelect('m%d' % i, basis), fit_select
        else:
            m, f = ModelInterpolate('m%d' % i, basis), fit_interpolate
        models.append(m)
        fitters.append(f)
    return models, fitters


def _pipeline(ctx, plan, value_fn, script, strict, scripted_thetas=None):
    """build data -> optional bootstrap -> generator -> crossval with spy fitters. Returns dict."""
    from rsatoolbox.inference import crossval
    src0 = gen.build_rdms(plan['spec'], value_fn=value_fn)
    seam = RngSeam(ctx, plan['serve_seed'], plan.get('faults'), script=script, strict_script=strict)
    out = {}
    with seam:
        _prehistory(plan, src0)
        src = _pre_boot(plan, src0)
        res, info = _call_generator(plan, src)
        if res is None:
            return None
        out.update({'src': src, 'res': res, 'info': info})
        if plan['mode'] == 'B':
            small = [tr[0].n_cond <= 2 or te[0].n_cond <= 2 or tr[0].n_rdm == 0 or te[0].n_rdm == 0
                     for tr, te in zip(res[0], res[1])]
            if all(small):
                out['too_small'] = True
                return out
            # (folds that crossval leaves out -- too few conditions -- stay in the list: the folds after them are judged)
            out['n_small_folds'] = sum(small)
            models, fitters = _make_models(plan)
            log = []
            used = []
            for m in models:
                _spy_predict(m, used)
            fault = None
            if plan.get('fit_fault') is not None and scripted_thetas is None:
                fault = {'call': plan['fit_fault'], 'attempts': 0, 'fired': False}
            spies = [SpyFitter(f, log, scripted_thetas, fault) for f in fitters]
            out['fit_fault'] = fault
            train_set, test_set, ceil_set = res
            cvc = plan.get('cv_ceil', 'given_off')
            if out.get('n_small_folds'):
                # (a fold of two conditions has a single dissimilarity: crossval leaves it out of the evaluation, but a
                #  correlation-type noise ceiling of it is undefined and the ceiling routine raises -- C04's ground; here the
                #  ceilings are switched off for such fold lists)
                cvc = 'given_off'
            r = crossval(models, src, train_set, test_set, ceil_set=None if cvc == 'none_on' else ceil_set, method=plan['method'],
                         fitter=spies, pattern_descriptor=plan['pat_desc'] if plan['gen'] not in RDM_ONLY else 'index',
                         **({'calc_noise_ceil': False} if cvc == 'given_off' else ({} if cvc == 'none_on' else {'calc_noise_ceil': True})))
            out.update({'evals': np.array(r.evaluations, copy=True), 'log': log, 'models': models, 'used': used})
    out['script'] = seam.script_of_served()
    out['served'] = seam.served
    return out


NUMERIC = ('LinAlgError', 'FloatingPointError')


def _mode_G(ctx, plan):
    """exhaustive over k for one number of groups n (ordered assignment): every group is in exactly one test fold, fold
    sizes differ by at most one, test and training groups of a fold are disjoint and together all groups"""
    import rsatoolbox.inference.crossvalsets as cvs
    from rsatoolbox.rdm import RDMs
    n = plan['n']
    ctx.tick('op', gen='grid', n=n)
    # n conditions, one RDM (pattern folds); n RDMs over 3 conditions (rdm folds)
    pat = RDMs(np.arange(1.0, n * (n - 1) // 2 + 1).reshape(1, -1), pattern_descriptors={'uid': list(range(n))})
    rdm = RDMs(np.arange(1.0, 3 * n + 1).reshape(n, 3), rdm_descriptors={'uid': list(range(n))})
    for k in range(2, n + 1):
        for gname, call, axis in (('sets_k_fold_pattern', lambda: cvs.sets_k_fold_pattern(pat, pattern_descriptor='uid', k=k, random=False), 'pattern'),
                                  ('sets_k_fold_rdm', lambda: cvs.sets_k_fold_rdm(rdm, k_rdm=k, random=False, rdm_descriptor='uid'), 'rdm')):
            if axis == 'pattern' and (n - (n // k if n % k == 0 else n // k + 1)) < 1:
                continue
            try:
                res = call()
            except Exception as e:
                if axis == 'pattern' and k > n:
                    continue
                ctx.violation('folds_ref.raises', f'{gname}:grid:raises:{type(e).__name__}', f'{gname} with {n} groups and k={k} raised {type(e).__name__}: {e}')
                return
            train, test = res[0], res[1]
            seen = Counter()
            sizes = []
            for tr, te in zip(train, test):
                d_te = te[0].pattern_descriptors['uid'] if axis == 'pattern' else te[0].rdm_descriptors['uid']
                d_tr = tr[0].pattern_descriptors['uid'] if axis == 'pattern' else tr[0].rdm_descriptors['uid']
                te_g, tr_g = set(normlist(d_te)), set(normlist(d_tr))
                seen.update(te_g)
                sizes.append(len(te_g))
                if te_g & tr_g or (te_g | tr_g) != set(range(n)):
                    ctx.violation('folds_ref.partition', f'{gname}:grid:train-test', f'{gname}, {n} groups, k={k}: a fold has test groups {sorted(te_g)} and training groups {sorted(tr_g)}')
                    return
            if len(train) != k or any(seen[g] != 1 for g in range(n)) or max(sizes) - min(sizes) > 1:
                ctx.violation('folds_ref.partition', f'{gname}:grid:not-a-partition',
                              f'{gname}, {n} groups, k={k}: {len(train)} folds with test sizes {sizes}; groups by number of test folds '
                              f'{ {g: c for g, c in sorted(seen.items()) if c != 1} } (missing: {[g for g in range(n) if seen[g] == 0]})')
                return
            ctx.probe('grid_cells_checked')
    # groups of k: every admissible group size (at most half the groups per test set) gives n // k folds that put every
    # group in exactly one test fold, sizes differing by at most one
    for k in range(1, n // 2 + 1):
        for gname, call, axis in (('sets_of_k_pattern', lambda: cvs.sets_of_k_pattern(pat, pattern_descriptor='uid', k=k, random=False), 'pattern'),
                                  ('sets_of_k_rdm', lambda: cvs.sets_of_k_rdm(rdm, rdm_descriptor='uid', k=k, random=False), 'rdm')):
            try:
                res = call()
            except Exception as e:
                ctx.violation('folds_ref.raises', f'{gname}:grid:raises:{type(e).__name__}', f'{gname} with {n} groups and k={k} raised {type(e).__name__}: {e}')
                return
            train, test = res[0], res[1]
            seen = Counter()
            sizes = []
            for tr, te in zip(train, test):
                d_te = te[0].pattern_descriptors['uid'] if axis == 'pattern' else te[0].rdm_descriptors['uid']
                d_tr = tr[0].pattern_descriptors['uid'] if axis == 'pattern' else tr[0].rdm_descriptors['uid']
                te_g, tr_g = set(normlist(d_te)), set(normlist(d_tr))
                seen.update(te_g)
                sizes.append(len(te_g))
                if te_g & tr_g or (te_g | tr_g) != set(range(n)):
                    ctx.violation('folds_ref.partition', f'{gname}:grid:train-test', f'{gname}, {n} groups, groups of {k}: a fold has test groups {sorted(te_g)} and training groups {sorted(tr_g)}')
                    return
            if len(train) != n // k or any(seen[g] != 1 for g in range(n)) or max(sizes) - min(sizes) > 1:
                ctx.violation('folds_ref.partition', f'{gname}:grid:not-a-partition',
                              f'{gname}, {n} groups, groups of {k}: {len(train)} folds ({n // k} expected) with test sizes {sizes}; '
                              f'missing from every test fold: {[g for g in range(n) if seen[g] == 0]}, in several: {[g for g in range(n) if seen[g] > 1]}')
                return
            ctx.probe('grid_cells_checked_of_k')
    ctx.nontrivial = True
    ctx.behaviour('G', n)


def _mode_C(ctx, plan):
    """cross-validated evaluation inside the bootstrap: every fold set the routine generates internally must keep the
    groups of the descriptors *the routine was given* (and all bootstrap copies) on one side"""
    from checks import c04
    from sim.spies import Spies
    import rsatoolbox.inference.evaluate as evm
    import rsatoolbox.inference.crossvalsets as cvs
    from rsatoolbox.model import ModelFixed
    spec, routine = plan['spec'], plan['gen']
    data = gen.build_rdms(spec, value_fn=c04.val_c)
    models = [ModelFixed('m%d' % i, gen.build_model_rdms(spec, 1, salt='m%d' % i)) for i in range(2)]
    pseudo = {'opts': {'rdm_desc': plan['rdm_desc'], 'pat_desc': plan['pat_desc']}, 'routine': routine, 'spec': spec}
    seam = RngSeam(ctx, plan['serve_seed'], plan.get('faults'), script=plan.get('draw_script'), strict_script=plan.get('strict_script', False))
    spies = Spies()
    n_sets = [0]

    def on_ret(ent):
        n_sets[0] += 1
        c04._validate_folds(ctx, pseudo, ent)
    kw = dict(method='cosine', k_pattern=plan['k_pattern'], k_rdm=plan['k_rdm'], N=plan['N'], n_cv=plan['n_cv'],
              rdm_descriptor=plan['rdm_desc'], pattern_descriptor=plan['pat_desc'])
    if routine == 'bootstrap_crossval':
        kw['boot_type'] = plan['boot_type']
    with seam, spies:
        spies.wrap(cvs.sets_k_fold, 'sets_k_fold', on_return=on_ret)
        try:
            getattr(evm, routine)(models, data, **kw)
        except StopRun:
            raise
        except Exception as e:
            ctx.probe('routine_raised_not_judged_here')      # what the routines themselves owe is C04's statement
            ctx.notes.setdefault('mode_C_raised', type(e).__name__)
    ctx.draw_script = seam.script_of_served()
    if n_sets[0]:
        ctx.nontrivial = True
    ctx.behaviour('C', routine, plan['k_rdm'], plan['k_pattern'], plan['rdm_desc'], plan['pat_desc'], plan.get('boot_type'),
                  spec['rdm_desc'].get('grp', {}).get('kind'), spec['pat_desc'].get('grp', {}).get('kind'))


def execute(plan, ctx):
    import rsatoolbox  # noqa
    ctx.components.update(['real:rsatoolbox.inference.crossvalsets', 'real:rsatoolbox.inference.crossval',
                           'real:rsatoolbox.model.fitter', 'real:rsatoolbox.rdm.RDMs',
                           'stub:numpy.random (shuffles/draws served by the simulator)'])
    if plan['mode'] == 'G':
        return _mode_G(ctx, plan)
    spec = plan['spec']
    tabs = gen.source_tables(spec)
    g = plan['gen']
    ctx.tick('op', gen=g, mode=plan['mode'])
    if plan['mode'] == 'C':
        return _mode_C(ctx, plan)
    if plan['mode'] == 'A':
        try:
            out = _pipeline(ctx, plan, gen.enc, plan.get('draw_script'), plan.get('strict_script', False))
        except HarnessError:
            raise
        except Exception as e:
            ctx.violation('folds_ref.raises', f'{g}:raises:{type(e).__name__}',
                          f'{g} raised {type(e).__name__}: {e} on admissible arguments '
                          f'(rdm_desc={plan["rdm_desc"]}, pat_desc={plan["pat_desc"]}, random={plan["random"]})')
            return
        if out is None:
            ctx.probe('inadmissible_skipped')
            return
        ctx.draw_script = out['script']
        ctx.nontrivial = True
        oracle_A(ctx, plan, out['src'], tabs, out['res'], out['info'])
        faults = sorted({e['fault'] for e in out['served']})
        info = out['info']
        ctx.behaviour('A', g, info['fold_rdm'], info['fold_pat'], plan['rdm_desc'], plan['pat_desc'],
                      spec['rdm_desc'].get('grp', {}).get('kind'), spec['pat_desc'].get('grp', {}).get('kind'),
                      plan.get('pre_boot'), ','.join(faults))
        return

    # ---------------- mode B: non-interference by record / replay
    base_fn = gen.make_value_fn('v')
    try:
        rec = _pipeline(ctx, plan, base_fn, plan.get('draw_script'), plan.get('strict_script', False))
    except HarnessError:
        raise
    except Exception as e:
        if type(e).__name__ in NUMERIC or 'Singular' in str(e):
            ctx.probe('primitive_failed')
            if plan.get('fit_fault') is not None:
                ctx.fault('fitter_linalg_error')       # injected and propagated to the caller: nothing was fitted on other data
                ctx.nontrivial = True
                ctx.behaviour('B', g, 'fit-fault-propagated', plan['fit_fault'])
            return
        ctx.violation('noninterf.raises', f'{g}:B:raises:{type(e).__name__}',
                      f'crossval over {g} folds raised {type(e).__name__}: {e}')
        return
    if rec is None:
        ctx.probe('inadmissible_skipped')
        return
    if rec.get('too_small'):
        ctx.probe('fold_too_small_not_judged')
        return
    ctx.draw_script = rec['script']
    ctx.nontrivial = True
    train_set, test_set, _ = rec['res']
    nm = len(rec['models'])
    ff = rec.get('fit_fault')
    if ff is not None and ff['fired']:
        # the fit of one (fold, model) failed, yet crossval returned: whatever parameters it then used for that fold were
        # not fitted on that fold's training data (a value kept from another fold has seen this fold's test data)
        ctx.fault('fitter_linalg_error')
        f_bad, j_bad = ff['call'] // nm, ff['call'] % nm
        ev = rec['evals']
        scored = f_bad < ev.shape[2] and np.isfinite(ev[0, j_bad, f_bad])
        if scored:
            ctx.violation('noninterf.fit_failure', f'{g}:B:failed-fit-replaced',
                          f'{g}: the fit of model {j_bad} on fold {f_bad} raised LinAlgError (injected), but crossval returned a '
                          f'score {ev[0, j_bad, f_bad]!r} for that fold: the parameters used there were not fitted on its training data')
        else:
            ctx.probe('failed_fit_marked_nan')
        ctx.behaviour('B', g, 'fit-fault-returned', plan['fit_fault'])
        return
    if ff is not None:
        ctx.probe('fit_fault_not_reached')
    log = rec['log']
    # which fitter calls belong to which fold: by identity of the training object
    calls = {}
    for ci, c in enumerate(log):
        owners = [f for f in range(len(train_set)) if c['data'] is train_set[f][0]]
        if not owners:      # tolerate a fit on a *copy* of a fold's training data (equal content)
            owners = [f for f in range(len(train_set))
                      if c['fp'][:3] == (np.asarray(train_set[f][0].dissimilarities).tobytes(),
                                         tuple(uid_seqs(train_set[f][0])[0]), tuple(uid_seqs(train_set[f][0])[1]))]
        if len(owners) >= 1:
            calls.setdefault(owners[0], []).append(ci)
        else:
            # the data handed to the fitter is no fold's training set; whether that lets test data leak is decided below on
            # the parameters crossval actually uses (altering test-only data must not change them)
            ctx.probe('fitter_input_not_a_training_set')
    nfolds = len(train_set)
    folds = ([nfolds - 1] + list(range(nfolds - 1)))[:2 if 'weighted_optimize' in plan['models'] else 4]
    for f in folds:
        tr_ru, tr_cu = uid_seqs(train_set[f][0])
        te_ru, te_cu = uid_seqs(test_set[f][0])
        test_only_r = set(te_ru) - set(tr_ru)
        test_only_c = set(te_cu) - set(tr_cu)
        train_r, train_c, test_r, test_c = set(tr_ru), set(tr_cu), set(te_ru), set(te_cu)
        # Run 2f: alter every dissimilarity involving a test-only condition or a test-only RDM
        if test_only_r or test_only_c:
            fn2 = gen.make_value_fn('v', 'alt-test', lambda r, a, b: r in test_only_r or a in test_only_c or b in test_only_c)
            try:
                rep = _pipeline(ctx, plan, fn2, rec['script'], True)
            except HarnessError:
                raise
            except Exception as e:
                ctx.violation('noninterf.replay_raises', f'{g}:B:replay-raises',
                              f'replay with altered test-only data raised {type(e).__name__}: {e}')
                return
            for ci in calls.get(f, []):
                if ci >= len(rep['log']):
                    break
                a, b = log[ci], rep['log'][ci]
                if a['fp'] != b['fp']:
                    ctx.violation('noninterf.fit_input', f'{g}:B:test-data-reached-fitter',
                                  f'{g} fold {f}: altering dissimilarities of test-only conditions {sorted(test_only_c)} / '
                                  f'test-only RDMs {sorted(test_only_r)} changed the data handed to the fitter of model {a["model"]}')
                    return
                if _nb(a['theta']) != _nb(b['theta']):
                    ctx.violation('noninterf.theta', f'{g}:B:theta-depends-on-test-data',
                                  f'{g} fold {f}: altering test-only data changed fitted theta of {a["model"]}: '
                                  f'{a["theta"].tolist()} -> {b["theta"].tolist()}')
                    return
            # the parameters crossval *used* for this fold (observed at predict_rdm), whether or not a fitter call was seen
            nf_all = len(train_set)
            if len(rec['used']) == nf_all * nm and len(rep['used']) == nf_all * nm:
                for j in range(nm):
                    a, b = rec['used'][f * nm + j], rep['used'][f * nm + j]
                    if _nb(a[1]) != _nb(b[1]):
                        ctx.violation('noninterf.theta_used', f'{g}:B:used-theta-depends-on-test-data',
                                      f'{g} fold {f}: altering test-only data (conditions {sorted(test_only_c)}, RDMs '
                                      f'{sorted(test_only_r)}) changed the parameters used for model {a[0]}: '
                                      f'{a[1].tolist()} -> {b[1].tolist()}')
                        return
                ctx.probe('used_theta_compared')
            else:
                ctx.probe('used_theta_not_attributable')
            ctx.probe('test_perturbation_replayed')
        # Run 3f: alter training-only entries, hold theta fixed -> score of fold f unchanged
        def train_only(r, a, b):
            in_train = r in train_r and a in train_c and b in train_c
            in_test = r in test_r and a in test_c and b in test_c
            return in_train and not in_test
        fn3 = gen.make_value_fn('v', 'alt-train', train_only)
        thetas = [c['raw'] for c in log]
        try:
            rep = _pipeline(ctx, plan, fn3, rec['script'], True, scripted_thetas=thetas)
        except HarnessError:
            raise
        except Exception as e:
            ctx.violation('noninterf.replay_raises', f'{g}:B:replay-raises',
                          f'replay with altered training-only data raised {type(e).__name__}: {e}')
            return
        e0, e1 = rec['evals'][0, :, f], rep['evals'][0, :, f]
        # NaN scores are equal whatever their sign bit / payload (0/0 yields nan or -nan depending on the code path numpy takes)
        e0, e1 = np.where(np.isnan(e0), np.nan, e0), np.where(np.isnan(e1), np.nan, e1)
        if e0.tobytes() != e1.tobytes():
            ctx.violation('noninterf.score', f'{g}:B:score-depends-on-training-data',
                          f'{g} fold {f}: with theta held fixed, altering training-only data changed the fold score '
                          f'{e0.tolist()} -> {e1.tolist()}')
            return
        ctx.probe('train_perturbation_replayed')
    for f in range(len(train_set)):
        if len(calls.get(f, [])) != nm:
            ctx.probe('fold_without_own_fitter_call')
    info = rec['info']
    ctx.behaviour('B', g, info['fold_rdm'], info['fold_pat'], plan['rdm_desc'], plan['pat_desc'], plan['method'],
                  ','.join(plan['models']), plan.get('pre_boot'))
