"""C09 -- bootstrap samples are faithful with-replacement resamples of whole groups.

Workload: identity-encoded RDM stacks with grouping descriptors; calls to bootstrap_sample,
bootstrap_sample_rdm, bootstrap_sample_pattern, RDMs.subsample, RDMs.subsample_pattern, including
resampling a resample.  Nondeterminism: every draw is served by the RNG seam with draw faults.
Oracle: resample reference model evaluated from the *served draws* and the source object only."""
from __future__ import annotations
from collections import Counter
import itertools

import numpy as np

from sim.kernel import HarnessError
from sim.rngseam import RngSeam, RANDINT_FAULTS
from sim import gen
from sim.gen import norm, normlist
from sim.twins.rdms_ref import check_assoc, uid_seqs

PROPERTY = 'C09'
RULE = ('seeded plans: RDM stack (1-6 RDMs, 3-9 conditions, identity-encoded values, optional NaNs) with '
        'grouping descriptors {unique, uneven groups, all-equal} x {int,str} x {list,ndarray}; 1-6 calls among '
        'bootstrap_sample/_rdm/_pattern, subsample, subsample_pattern incl. resample-of-resample; draws served '
        'by the RNG seam with draw faults; plus directed enumeration of all 27 draw vectors on 3 groups. '
        'A run is non-trivial if at least one draw was served or one explicit resample was checked; distinct = '
        'distinct (op, grouping kinds, draw-fault kind, #unique-drawn class) signatures, counted per call (a run makes 1-8 calls, so the count can exceed the number of runs).')
ASSUMPTIONS = ['numpy global RNG is the only entropy source of rsatoolbox.inference.bootstrap (seam); '
               'the RNG itself is a stub, so bias of the generator is out of scope',
               'reference model sim/twins/rdms_ref.py is correct']
BUDGET = {'quick': {'runs': 8000, 'cap_s': 20, 'wall_s': 100, 'chunk': 40},
          'thorough': {'runs': 120000, 'cap_s': 60, 'wall_s': 900, 'chunk': 200}}

OPS = ['bootstrap_sample', 'bootstrap_sample_rdm', 'bootstrap_sample_pattern', 'subsample', 'subsample_pattern']


def gen_plan(rng, tier, index):
    big = tier == 'thorough'
    if rng.chance(0.05):
        spec = gen.gen_rdms_spec(rng, n_rdm=(9, 20), n_cond=(17, 26), dtypes=True)      # beyond the sizes where sorts / look-ups switch algorithms
    else:
        spec = gen.gen_rdms_spec(rng, n_rdm=(1, 8 if big else 6), n_cond=(3, 11 if big else 9), dtypes=True)
    n_ops = rng.randint(1, 8 if big else 6)
    if rng.chance(0.12) and len(spec['cond_uids']) > 3:
        # a user-supplied 'index' for the conditions (stimulus-set number ...): values repeat and are not positional
        nc = len(spec['cond_uids'])
        spec['pat_desc']['index'] = {'values': [i % max(1, nc // 2) for i in range(nc)], 'container': rng.pick(['list', 'array'])}
    ops = []
    for _ in range(n_ops):
        op = rng.wpick([('bootstrap_sample', 4), ('bootstrap_sample_rdm', 2), ('bootstrap_sample_pattern', 3),
                        ('subsample', 1), ('subsample_pattern', 1.5), ('reorder', 1), ('sort_by', 0.7), ('get_matrices', 0.5),
                        ('relabel', 0.7), ('append_other', 0.7)])
        o = {'op': op, 'src': rng.randrange(0, 8) if rng.chance(0.45) else 0,
             'rdm_desc': rng.pick(['grp', 'grp', 'index', 'uid']),
             'pat_desc': rng.pick(['grp', 'grp', 'index', 'uid'] + (['pos'] if 'pos' in spec['pat_desc'] else []))}
        if op in ('subsample', 'subsample_pattern'):
            o['picks'] = [rng.randrange(0, 12) for _ in range(rng.randint(1, 7))]
            o['by_none'] = rng.chance(0.5)
            o['as_array'] = rng.chance(0.5)
        if op in ('reorder', 'sort_by', 'relabel'):
            o['perm_seed'] = rng.randrange(10 ** 6)
        ops.append(o)
    kinds = rng.subset(RANDINT_FAULTS, 0.2, 0.9)
    return {'spec': spec, 'ops': ops,
            'faults': {'rate': rng.pick([0.0, 0.0, 0.2, 0.5]), 'kinds': kinds, 'k_targets': [1, 2, 3]}}


def directed_plans(tier):
    plans = []
    # all 27 pattern draw vectors x 3 conditions (unique groups), and all 8 rdm draw vectors on 2 groups of rdms
    spec = {'rdm_uids': [4, 9, 2], 'cond_uids': [7, 3, 12], 'nan_cells': [], 'measure': 'euclidean',
            'descriptors': {},
            'rdm_desc': {'grp': {'values': ['b', 'a', 'b'], 'container': 'list'}},
            'pat_desc': {'grp': {'values': [30, 10, 20], 'container': 'array'}}}
    for vec in itertools.product(range(3), repeat=3):
        plans.append({'spec': spec, 'faults': {'rate': 0, 'kinds': []},
                      'ops': [{'op': 'bootstrap_sample_pattern', 'src': 0, 'rdm_desc': 'grp', 'pat_desc': 'grp'}],
                      'draw_script': {'0': {'fn': 'randint', 'shape': [3], 'result': list(vec)}}})
    for rv in itertools.product(range(2), repeat=2):
        for pv in ((0, 1, 2), (2, 2, 0), (1, 1, 1)):
            plans.append({'spec': spec, 'faults': {'rate': 0, 'kinds': []},
                          'ops': [{'op': 'bootstrap_sample', 'src': 0, 'rdm_desc': 'grp', 'pat_desc': 'index'},
                                  {'op': 'bootstrap_sample', 'src': 1, 'rdm_desc': 'grp', 'pat_desc': 'index'}],
                          'draw_script': {'0': {'fn': 'randint', 'shape': [2], 'result': list(rv)},
                                          '1': {'fn': 'randint', 'shape': [3], 'result': list(pv)}}})
    # one object large enough for block-wise square-form code (130 RDMs x 92 conditions = 4 MB of square matrices and more
    # than 2**20 matrix cells): pattern and joint bootstrap
    nr, nc = (130, 92) if tier == 'quick' else (270, 64)
    wide = {'rdm_uids': list(range(1, nr + 1)), 'cond_uids': list(range(100, 100 + nc)), 'nan_cells': [], 'measure': 'euclidean',
            'descriptors': {}, 'wide': True,
            'rdm_desc': {'grp': {'values': [i // 2 for i in range(nr)], 'container': 'array'}},
            'pat_desc': {'grp': {'values': [i // 3 for i in range(nc)], 'container': 'list'}}}
    for op in ('bootstrap_sample_pattern', 'bootstrap_sample'):
        plans.append({'spec': wide, 'faults': {'rate': 0, 'kinds': []},
                      'ops': [{'op': op, 'src': 0, 'rdm_desc': 'grp', 'pat_desc': 'grp'}]})
    return plans


def summarize(plan):
    return {'n_rdm': len(plan['spec']['rdm_uids']), 'n_cond': len(plan['spec']['cond_uids']),
            'rdm_grp': plan['spec']['rdm_desc'].get('grp', {}).get('values'),
            'pat_grp': plan['spec']['pat_desc'].get('grp', {}).get('values'),
            'ops': plan['ops'], 'faults': plan['faults']}


def shrink_candidates(plan):
    spec = plan['spec']
    # fewer RDMs / conditions (only when no op result depends on positions: values are formula-generated)
    if len(spec['rdm_uids']) > 1:
        for drop in range(len(spec['rdm_uids'])):
            yield {**plan, 'spec': _drop(spec, 'rdm', drop)}
    if len(spec['cond_uids']) > 3:
        for drop in range(len(spec['cond_uids'])):
            yield {**plan, 'spec': _drop(spec, 'cond', drop)}
    if plan['faults'].get('rate', 0) > 0:
        yield {**plan, 'faults': {'rate': 0.0, 'kinds': []}}
    for i, o in enumerate(plan['ops']):
        if o.get('src', 0) != 0:
            ops = list(plan['ops'])
            ops[i] = {**o, 'src': 0}
            yield {**plan, 'ops': ops}


def _drop(spec, axis, k):
    s = dict(spec)
    if axis == 'rdm':
        s['rdm_uids'] = spec['rdm_uids'][:k] + spec['rdm_uids'][k + 1:]
        s['rdm_desc'] = {n: {**d, 'values': d['values'][:k] + d['values'][k + 1:]} for n, d in spec['rdm_desc'].items()}
        s['nan_cells'] = [[r - (r > k), i, j] for r, i, j in spec['nan_cells'] if r != k]
    else:
        s['cond_uids'] = spec['cond_uids'][:k] + spec['cond_uids'][k + 1:]
        s['pat_desc'] = {n: {**d, 'values': d['values'][:k] + d['values'][k + 1:]} for n, d in spec['pat_desc'].items()}
        s['nan_cells'] = [[r, i - (i > k), j - (j > k)] for r, i, j in spec['nan_cells'] if i != k and j != k]
    return s


# ------------------------------------------------------------------------------------------- execution
def _groups(obj, axis, desc):
    """(sorted distinct group values, per-position group values, per-position uids)"""
    if axis == 'rdm':
        gv = normlist(obj.rdm_descriptors[desc])
        uids = normlist(obj.rdm_descriptors['uid'])
    else:
        gv = normlist(obj.pattern_descriptors[desc])
        uids = normlist(obj.pattern_descriptors['uid'])
    distinct = sorted(set(gv))
    return distinct, gv, uids


def _expected_multiset(gv, uids, idx_values):
    exp = Counter()
    for v in idx_values:
        for g, u in zip(gv, uids):
            if g == v:
                exp[u] += 1
    return exp


def _check_axis_request(ctx, op, axis, served, distinct, idx):
    """clause 1: request shape and the mapping draw -> returned group values"""
    n = len(distinct)
    ints = [e for e in served if e['fn'] in ('randint', 'choice')]
    match = [e for e in ints if int(np.asarray(e['result']).size) == n and
             (e['args'][1] - e['args'][0] if e['fn'] == 'randint' else e['args'][0]) == n]
    idxn = normlist(idx)
    if len(idxn) != n:
        ctx.violation('resample_ref.clause1', f'{op}:{axis}:request',
                      f'{op}: {axis} axis has {n} distinct groups but {len(idxn)} group indices were returned')
        return None
    if any(v not in distinct for v in idxn):
        ctx.violation('resample_ref.clause1', f'{op}:{axis}:request',
                      f'{op}: returned {axis} indices {idxn} are not all group values {distinct}')
        return None
    if not match:
        ctx.violation('resample_ref.clause1', f'{op}:{axis}:request',
                      f'{op}: no draw request of {n} integers uniform on [0,{n}) was made for the {axis} axis; '
                      f'requests seen: {[(e["fn"], e["args"]) for e in ints]}')
        return None
    # the returned indices must have the same equality pattern as some matching served draw vector
    for e in match:
        dr = np.asarray(e['result']).ravel().tolist()
        if all((dr[i] == dr[j]) == (idxn[i] == idxn[j]) for i in range(n) for j in range(i + 1, n)):
            return e
    ctx.violation('resample_ref.clause1', f'{op}:{axis}:mapping',
                  f'{op}: returned {axis} indices {idxn} do not follow the served draws '
                  f'{[np.asarray(e["result"]).ravel().tolist() for e in match]} (groups {distinct})')
    return None


def _check_sample(ctx, op, sample, src_state, tabs, exp_r, exp_c):
    rdm_tab, pat_tab, nan_cells = tabs[:3]
    probs = check_assoc(sample, rdm_tab, pat_tab, nan_cells, value_fn=tabs[3] if len(tabs) > 3 else gen.enc)
    for clause, msg in probs[:1]:
        ctx.violation('resample_ref.' + clause, f'{op}:{clause}', f'{op}: {msg}')
    ru, cu = uid_seqs(sample)
    if Counter(ru) != exp_r:
        ctx.violation('resample_ref.clause2', f'{op}:content:rdm',
                      f'{op}: sample holds RDM uids {sorted(Counter(ru).items())}, drawn groups give {sorted(exp_r.items())}')
    if Counter(cu) != exp_c:
        ctx.violation('resample_ref.clause2', f'{op}:content:pattern',
                      f'{op}: sample holds condition uids {sorted(Counter(cu).items())}, drawn groups give {sorted(exp_c.items())}')
    # 'index' is a descriptor like the others: the items of the sample carry the index values they have in the source
    # (which are not the positions 0..n-1 once the source was subset, re-ordered without re-indexing or indexed by the user)
    for axis, sd, od, seq in (('pattern', getattr(src_state, 'pattern_descriptors', {}), sample.pattern_descriptors, cu),
                              ('rdm', getattr(src_state, 'rdm_descriptors', {}), sample.rdm_descriptors, ru)):
        if 'index' in sd and 'uid' in sd and 'index' in od:
            by_uid = {}
            for u, v in zip(normlist(sd['uid']), normlist(sd['index'])):
                by_uid.setdefault(u, v)
            if len(set(normlist(sd['uid']))) == len(normlist(sd['uid'])):
                exp_idx = [by_uid.get(u) for u in seq]
                got_idx = normlist(od['index'])
                if got_idx != exp_idx and normlist(sd['index']) != list(range(len(normlist(sd['index'])))):
                    ctx.violation('resample_ref.clause2', f'{op}:index-descriptor:{axis}',
                                  f'{op}: the {axis} items of the sample carry index values {got_idx}; in the source they have {exp_idx}')
                elif got_idx == exp_idx:
                    ctx.probe('index_descriptor_followed')
    if norm(sample.dissimilarity_measure) != norm(src_state.dissimilarity_measure):
        ctx.violation('resample_ref.clause4', f'{op}:measure', f'{op}: dissimilarity_measure changed')
    if {k: norm(v) for k, v in sample.descriptors.items()} != {k: norm(v) for k, v in src_state.descriptors.items()}:
        ctx.violation('resample_ref.clause4', f'{op}:descriptors', f'{op}: object-level descriptors changed')
    return ru, cu


def _order_agreement(ctx, op, src, pat_desc, pattern_idx, sample_cu):
    """clause 5: resampling a model prediction with the returned indices gives the sample's order"""
    from rsatoolbox.rdm import RDMs
    nc = src.n_cond
    pd = {k: list(v) for k, v in src.pattern_descriptors.items()}
    pred = RDMs(np.arange(1, nc * (nc - 1) // 2 + 1, dtype=float).reshape(1, -1) if nc > 1 else np.zeros((1, 0)),
                pattern_descriptors=pd)
    preds = [pred]
    if pat_desc != 'index':
        # a model built on its own (conditions in the data's order, but with its own positional 'index'): the usual case
        preds.append(RDMs(np.array(pred.dissimilarities, copy=True), pattern_descriptors={k: list(v) for k, v in pd.items() if k != 'index'}))
    for which, pr in zip(('', ' (model object with its own index)'), preds):
        ps = pr.subsample_pattern(pat_desc, pattern_idx)
        pcu = normlist(ps.pattern_descriptors['uid'])
        if pcu != sample_cu:
            ctx.violation('resample_ref.clause5', f'{op}:order',
                          f'{op}: prediction{which} resampled with the returned pattern indices has conditions {pcu}, '
                          f'the sample has {sample_cu}')
            return


def execute(plan, ctx):
    import rsatoolbox
    from rsatoolbox.inference import bootstrap_sample, bootstrap_sample_rdm, bootstrap_sample_pattern
    ctx.components.update(['real:rsatoolbox.inference.bootstrap', 'real:rsatoolbox.rdm.RDMs', 'real:numpy',
                           'stub:numpy.random (global RNG: values served by the simulator)'])
    spec = plan['spec']
    vfn = gen.value_fn_of(spec)
    tabs = gen.source_tables(spec)
    objs = [gen.build_rdms(spec)]
    probs = check_assoc(objs[0], *tabs, value_fn=vfn)
    tabs = tuple(tabs) + (vfn,)
    tabs0 = tabs
    tabs_of = {}        # per object: the reference tables after a relabelling of that object (samples inherit their source's)
    if probs:
        raise HarnessError(f'generator produced an inconsistent source: {probs[:2]}')
    seam = RngSeam(ctx, plan['serve_seed'], plan.get('faults'), script=plan.get('draw_script'),
                   strict_script=plan.get('strict_script', False))
    with seam:
        for o in plan['ops']:
            op = o['op']
            src = objs[o.get('src', 0) % len(objs)]
            rd, pdn = o.get('rdm_desc', 'index'), o.get('pat_desc', 'index')
            tabs = tabs_of.get(id(src), tabs0)
            if op == 'append_other':
                # a documented in-place growth of the stack that later draws resample: another object's RDMs are appended
                if len(set(normlist(src.pattern_descriptors['uid']))) < src.n_cond or tabs is not tabs0:
                    ctx.probe('append_not_applicable')
                    continue
                other = gen.build_rdms(spec)
                if normlist(other.pattern_descriptors['uid']) != normlist(src.pattern_descriptors['uid']) \
                        or set(other.rdm_descriptors) != set(src.rdm_descriptors) or set(other.pattern_descriptors) != set(src.pattern_descriptors):
                    ctx.probe('append_not_applicable')
                    continue
                try:
                    src.append(other[0] if other.n_rdm > 1 else other)
                except Exception:
                    ctx.probe('inplace_op_raised')
                    continue
                if [pr for pr in check_assoc(src, *tabs[:3], value_fn=vfn) if not pr[1].startswith('n_rdm/n_cond')]:
                    # (values or labels wrong: C10's business; a merely stale size attribute is kept, draws must cope)
                    ctx.probe('source_inconsistent_after_inplace_op')
                    tabs_of.pop(id(src), None)
                    objs = [x for x in objs if x is not src] or [gen.build_rdms(spec)]
                ctx.tick('op', op=op, src=o.get('src', 0) % len(objs))
                ctx.probe('append_between_draws')
                continue
            if op == 'relabel':
                # the user re-assigns the values of a grouping descriptor (same items, other group membership): draws made
                # afterwards must follow the labels as they are now
                import random as _random
                ax = 'rdm' if o['perm_seed'] % 2 else 'pattern'
                dd = src.rdm_descriptors if ax == 'rdm' else src.pattern_descriptors
                uids = normlist(dd['uid'])
                if 'grp' not in dd or len(set(uids)) < len(uids) or len(uids) < 2:
                    ctx.probe('relabel_not_applicable')
                    continue
                old_vals = list(dd['grp']) if not isinstance(dd['grp'], np.ndarray) else dd['grp'].tolist()
                k = 1 + o['perm_seed'] % (len(old_vals) - 1)
                new_vals = old_vals[k:] + old_vals[:k]
                if o['perm_seed'] % 3 == 0:
                    # ... and the groups get names the object never carried before (and, sometimes, fewer of them)
                    ren = (lambda v: v + 'z') if isinstance(new_vals[0], str) else (lambda v: v + 50)
                    new_vals = [ren(v) for v in new_vals]
                    if o['perm_seed'] % 2 == 0 and len(set(new_vals)) > 2:
                        two = sorted(set(new_vals), key=str)[:2]
                        new_vals = [v if v in two else two[0] for v in new_vals]
                    ctx.probe('relabel_new_names')
                dd['grp'] = np.array(new_vals) if isinstance(dd['grp'], np.ndarray) else new_vals
                ti = 0 if ax == 'rdm' else 1
                tab = {u: dict(v) for u, v in tabs[ti].items()}
                for u, v in zip(uids, new_vals):
                    tab[u]['grp'] = v
                tabs = tuple(tab if i_ == ti else t for i_, t in enumerate(tabs))
                tabs_of[id(src)] = tabs
                ctx.tick('op', op=op, src=o.get('src', 0) % len(objs), axis=ax, shift=k)
                ctx.probe('relabel_between_draws')
                continue
            r_distinct, r_gv, r_uids = _groups(src, 'rdm', rd)
            p_distinct, p_gv, p_uids = _groups(src, 'pattern', pdn)
            ctx.tick('op', op=op, src=o.get('src', 0) % len(objs), rdm_desc=rd, pat_desc=pdn)
            k0 = len(seam.served)
            all_r = Counter(r_uids)
            all_c = Counter(p_uids)
            if op in ('reorder', 'sort_by', 'get_matrices'):
                # a documented in-place re-ordering (or a mere read of the square form) of the object that later draws
                # resample: the draws afterwards must still be faithful to the object as it is now
                import random as _random
                try:
                    if op == 'get_matrices':
                        src.get_matrices()
                    elif op == 'reorder':
                        perm = list(range(src.n_cond))
                        _random.Random(o['perm_seed']).shuffle(perm)
                        src.reorder(perm)
                    else:
                        src.sort_by(reindex=bool(o['perm_seed'] % 2), **{'uid': 'alpha'})      # reindex=False leaves 'index' non-positional
                except Exception as e:
                    ctx.probe('inplace_op_raised')
                    continue
                probs = check_assoc(src, *tabs[:3], value_fn=vfn)
                if probs:
                    ctx.probe('source_inconsistent_after_inplace_op')     # C10's business; do not resample from it
                    tabs_of.pop(id(src), None)
                    objs = [x for x in objs if x is not src] or [gen.build_rdms(spec)]
                ctx.probe('inplace_ops_between_draws')
                continue
            try:
                if op == 'bootstrap_sample':
                    sample, rdm_idx, pattern_idx = bootstrap_sample(src, rdm_descriptor=rd, pattern_descriptor=pdn)
                elif op == 'bootstrap_sample_rdm':
                    sample, rdm_idx = bootstrap_sample_rdm(src, rdm_descriptor=rd)
                    pattern_idx = None
                elif op == 'bootstrap_sample_pattern':
                    sample, pattern_idx = bootstrap_sample_pattern(src, pattern_descriptor=pdn)
                    rdm_idx = None
                elif op == 'subsample':
                    vals = [r_distinct[p % len(r_distinct)] for p in o['picks']]
                    arg = np.array(vals) if o.get('as_array') else vals
                    sample = src.subsample(None if (rd == 'index' and o.get('by_none')) else rd, arg)
                    rdm_idx, pattern_idx = vals, None
                elif op == 'subsample_pattern':
                    vals = [p_distinct[p % len(p_distinct)] for p in o['picks']]
                    arg = np.array(vals) if o.get('as_array') else vals
                    sample = src.subsample_pattern(None if (pdn == 'index' and o.get('by_none')) else pdn, arg)
                    rdm_idx, pattern_idx = None, vals
                else:
                    raise HarnessError('unknown op ' + op)
            except HarnessError:
                raise
            except Exception as e:
                ctx.violation('resample_ref.raises', f'{op}:raises:{type(e).__name__}',
                              f'{op} raised {type(e).__name__}: {e} on admissible arguments '
                              f'(rdm_desc={rd}, pat_desc={pdn})')
                continue
            served = seam.served[k0:]
            faults = sorted({e['fault'] for e in served})
            if op.startswith('bootstrap'):
                if rdm_idx is not None:
                    _check_axis_request(ctx, op, 'rdm', served, r_distinct, rdm_idx)
                if pattern_idx is not None:
                    _check_axis_request(ctx, op, 'pattern', served, p_distinct, pattern_idx)
                n_req = (rdm_idx is not None) + (pattern_idx is not None)
                ints = [e for e in served if e['fn'] in ('randint', 'choice')]
                if len(served) != n_req or len(ints) != n_req:
                    ctx.violation('resample_ref.clause1', f'{op}:request:count',
                                  f'{op}: expected {n_req} draw request(s), saw '
                                  f'{[(e["fn"], e["args"]) for e in served]}')
            exp_r = _expected_multiset(r_gv, r_uids, normlist(rdm_idx)) if rdm_idx is not None else all_r
            exp_c = _expected_multiset(p_gv, p_uids, normlist(pattern_idx)) if pattern_idx is not None else all_c
            ru, cu = _check_sample(ctx, op, sample, src, tabs, exp_r, exp_c)
            if pattern_idx is not None:
                _order_agreement(ctx, op, src, pdn, pattern_idx, cu)
            nu = len(set(normlist(pattern_idx))) if pattern_idx is not None else -1
            ctx.behaviour(op, spec['rdm_desc'].get('grp', {}).get('kind'), spec['pat_desc'].get('grp', {}).get('kind'),
                          rd, pdn, ','.join(faults), 'u%d' % min(nu, 4), 'dup' if len(set(p_uids)) < len(p_uids) else 'fresh')
            ctx.probe('samples_checked')
            if len(set(cu)) < len(cu):
                ctx.probe('sample_with_condition_copies')
            if len(set(ru)) < len(ru):
                ctx.probe('sample_with_rdm_copies')
            if src is not objs[0]:
                ctx.probe('resample_of_resample')
            ctx.nontrivial = True
            objs.append(sample)
            tabs_of[id(sample)] = tabs
    ctx.draw_script = seam.script_of_served()
