"""C18 -- simulated data reproduce the generating model's RDM.

Every np.random.uniform made by rsatoolbox.simulation is served and recorded by the RNG seam; the oracle is
closed-form from the served draws, plus replay of the identical draw history under changed noise configuration."""
from __future__ import annotations
import numpy as np

from sim.kernel import HarnessError
from sim.rngseam import RngSeam

PROPERTY = 'C18'
RULE = ('seeded plans: Euclidean-embeddable model RDM (squared distances of a seeded point set, 2-8 conditions, full or '
        'reduced rank) as fixed or weighted model with theta, channels >= conditions, partitions 1-4, n_sim 1-4, signal '
        'strengths, condition vector (ordered, shuffled or relabelled) or explicit design matrix, noise variance, optional '
        'SPD noise channel covariance, exact/same-signal flags; every uniform draw served by the RNG seam. The identical '
        'draw history is replayed with noise 0 / v1 / v2 (+ channel covariance). Non-trivial = make_dataset returned and '
        'at least one oracle clause was evaluated; distinct = distinct (model kind, rank class, design kind, n_part, n_sim, '
        'flags, signal, noise class) signatures.')
ASSUMPTIONS = ['np.random.uniform is the only entropy source of rsatoolbox.simulation.sim (seam); served values lie in '
               '[2^-20, 1-2^-20] (the measure-zero endpoints 0 and 1 are not injected)',
               'scipy.stats.norm.ppf and numpy linear algebra are trusted',
               'tolerance 1e-6 relative (the tree\'s own LDL clamp at 1e-15 costs about 6e-8)']
BUDGET = {'quick': {'runs': 10000, 'cap_s': 30, 'wall_s': 100, 'chunk': 50},
          'thorough': {'runs': 150000, 'cap_s': 60, 'wall_s': 1200, 'chunk': 250}}


def gen_plan(rng, tier, index):
    big = tier == 'thorough'
    nc = rng.randint(2, 8)
    dim = rng.pick([nc - 1, nc - 1, nc, max(1, nc - 2), 1, 2]) if nc > 2 else 1
    dim = max(1, dim)
    pts = [[[rng.randint(-6, 6) / 2.0 for _ in range(dim)] for _ in range(nc)] for _ in range(2)]
    kind = rng.pick(['fixed', 'weighted', 'fixed', 'weighted', 'fixed_multi', 'interpolate', 'select'])
    theta = [rng.pick([0.5, 1.0, 2.0, 3.0]), rng.pick([0.0, 0.5, 1.0])] if kind in ('weighted', 'interpolate') else \
        rng.pick([0, 1]) if kind == 'select' else None
    n_part = rng.randint(1, 4)
    design = rng.pick(['make_design', 'shuffled', 'relabelled', 'matrix', 'shuffled_relabelled', 'matrix_mixed', 'unbalanced'])
    n_ch = nc + rng.pick([0, 0, 1, 3, 10]) if rng.chance(0.92) else max(1, nc - rng.randint(1, 2))
    plan = {'n_cond': nc, 'points': pts, 'kind': kind, 'theta': theta, 'n_part': n_part, 'design': design,
            'perm_seed': rng.randrange(10 ** 6), 'labels': sorted(rng.sample(range(0, 40), nc)),
            'n_channel': n_ch, 'n_sim': rng.randint(1, 4), 'signal': rng.pick([0.5, 1, 2, 7, 0.5, 1, 2, 7, 0]),      # (0: a null simulation, pure noise)
            'noise': rng.pick([0, 0, 0.25, 1, 3]), 'noise2': rng.pick([0.5, 2, 9]),
            'noise_cov': rng.chance(0.3), 'cov_seed': rng.randrange(10 ** 6),
            'use_exact_signal': rng.chance(0.7), 'use_same_signal': rng.chance(0.4),
            'signal_cov': rng.chance(0.12), 'noise_cov_trial': rng.chance(0.2),
            'label_offset': rng.pick([0, 0, 0, 250000, 1700000000]), 'int_rdm': rng.chance(0.2),
            'arg_types': rng.pick(['py', 'py', 'np']),
            'faults': {'rate': 0, 'kinds': []}}
    return plan


def directed_plans(tier):
    base = {'n_cond': 4, 'points': [[[0.0, 0.0, 0.0], [1.0, 0.0, 0.0], [0.0, 2.0, 0.0], [0.0, 0.0, 3.0]]] * 2, 'kind': 'fixed',
            'theta': None, 'n_part': 2, 'design': 'make_design', 'perm_seed': 1, 'labels': [0, 1, 2, 3], 'n_channel': 6,
            'n_sim': 3, 'signal': 2, 'noise': 0, 'noise2': 2, 'noise_cov': False, 'cov_seed': 1,
            'use_exact_signal': True, 'use_same_signal': True, 'faults': {'rate': 0, 'kinds': []}}
    out = [base]
    for d in ('shuffled', 'relabelled', 'matrix', 'shuffled_relabelled'):
        out.append({**base, 'design': d, 'labels': [3, 11, 12, 30]})
    out.append({**base, 'use_same_signal': False, 'noise': 1, 'noise_cov': True})
    out.append({**base, 'kind': 'weighted', 'theta': [2.0, 0.5]})
    # the design vectors over a grid of sizes (many partitions: a long session, many runs): no randomness involved
    for lo in range(1, 97 if tier == 'quick' else 257, 16):
        out.append({'mode': 'design_grid', 'n_part_lo': lo, 'n_part_hi': lo + 16, 'n_cond_hi': 13 if tier == 'quick' else 25,
                    'faults': {'rate': 0, 'kinds': []}})
    # the exact-signal clause across signal strengths far from 1 (data in other units), judged relative to signal * model RDM
    for k_, (kind_, th_) in enumerate((('fixed', None), ('weighted', [2.0, 0.5]), ('fixed', None))):
        out.append({**base, 'mode': 'signal_scale', 'kind': kind_, 'theta': th_, 'n_channel': 7 + k_, 'n_sim': 2, 'serve_seed': 1234 + k_,
                    'signals': [1e-16, 1e-12, 1e-8, 1e-3, 1.0, 1e6, 1e12], 'use_same_signal': bool(k_ % 2), 'noise': 0})
    # ... and model RDMs in small and large units (distances ~1e-9 and ~1e9) at signal 1 and 1e3
    for k_, sc_ in enumerate((3e-5, 2e-3, 4e4)):
        out.append({**base, 'mode': 'signal_scale', 'kind': 'fixed', 'theta': None, 'n_channel': 7, 'n_sim': 1, 'serve_seed': 4321 + k_,
                    'points': [[[c_ * sc_ for c_ in row] for row in pp] for pp in base['points']],
                    'signals': [1.0, 1e3], 'use_same_signal': False, 'noise': 0})
    # two histories (thorough tier VERIF_SEED=0; quick tier VERIF_SEED=6) on which the exact-signal construction breaks down
    # macroscopically: model RDMs with two identical conditions whose second-moment matrix makes scipy's LDL use a 2x2
    # pivot. Kept as directed scenarios so that the known finding is re-observed on every run.
    import json
    import os
    for name in ('c18_ldl_pivot_plan_a.json', 'c18_ldl_pivot_plan_b.json'):
        f = os.path.join(os.path.dirname(os.path.abspath(__file__)), 'data', name)
        if os.path.exists(f):
            out.append(json.load(open(f)))
    return out


def summarize(plan):
    s = dict(plan)
    s.pop('points', None)
    return s


def shrink_candidates(plan):
    if plan.get('mode') == 'signal_scale':
        if len(plan['signals']) > 1:
            for i_ in range(len(plan['signals'])):
                yield {**plan, 'signals': plan['signals'][:i_] + plan['signals'][i_ + 1:]}
        return
    if plan.get('mode') == 'design_grid':
        if plan['n_part_hi'] - plan['n_part_lo'] > 1:
            mid = (plan['n_part_lo'] + plan['n_part_hi']) // 2
            yield {**plan, 'n_part_hi': mid}
            yield {**plan, 'n_part_lo': mid}
        if plan['n_cond_hi'] > 2:
            yield {**plan, 'n_cond_hi': plan['n_cond_hi'] - 1}
        return
    if plan['n_sim'] > 1:
        yield {**plan, 'n_sim': plan['n_sim'] - 1}
    if plan['n_part'] > 1:
        yield {**plan, 'n_part': plan['n_part'] - 1}
    if plan['noise_cov']:
        yield {**plan, 'noise_cov': False}
    if plan['design'] != 'make_design':
        yield {**plan, 'design': 'make_design'}
    if plan['kind'] in ('weighted', 'interpolate', 'select'):
        yield {**plan, 'kind': 'fixed', 'theta': None}
    if plan['noise'] != 0:
        yield {**plan, 'noise': 0}
    if plan['n_channel'] > plan['n_cond']:
        yield {**plan, 'n_channel': plan['n_cond']}
    if plan['signal'] != 1:
        yield {**plan, 'signal': 1}


def _sqdist(pts):
    p = np.asarray(pts, dtype=float)
    d = p[:, None, :] - p[None, :, :]
    return np.sum(d * d, axis=2)


def _design(plan):
    """returns (cond_vec argument, per-observation model-condition index, label per model condition)"""
    import random
    from rsatoolbox.simulation import make_design
    nc, n_part = plan['n_cond'], plan['n_part']
    cond_vec, part_vec = make_design(nc, n_part)
    r = random.Random(plan['perm_seed'])
    cv = np.array(cond_vec)
    if plan['design'] in ('shuffled', 'shuffled_relabelled', 'unbalanced') or (plan['design'] in ('matrix', 'matrix_mixed') and plan['perm_seed'] % 2):
        idx = list(range(len(cv)))
        r.shuffle(idx)
        cv = cv[idx]
    if plan['design'] == 'unbalanced':
        # the user's own condition vector: some conditions shown more often than others, in no particular order
        extra = [r.randrange(nc) for _ in range(r.randint(1, nc + 1))]
        cv = np.concatenate([cv, np.array(extra, dtype=cv.dtype)])
        idx = list(range(len(cv)))
        r.shuffle(idx)
        cv = cv[idx]
    cidx = cv.astype(int)
    labels = np.arange(nc, dtype=float)
    if plan['design'] in ('relabelled', 'shuffled_relabelled'):
        labels = np.array(plan['labels'], dtype=float) + float(plan.get('label_offset', 0))   # increasing, so the k-th smallest label is model condition k
        # (with an offset: numeric stimulus ids / onsets, large relative to their spacing)
        cv = labels[cidx]
    if plan['design'] in ('matrix', 'matrix_mixed'):
        Z = np.zeros((len(cidx), nc))
        Z[np.arange(len(cidx)), cidx] = 1
        if plan['design'] == 'matrix_mixed' and nc >= 2:
            # an explicit design matrix that is no indicator matrix: compound trials (two conditions active), a weighted
            # trial and a null trial, interleaved with the one-hot rows (which keep the matrix of full column rank)
            rows, idx = [], []
            extra = r.randint(1, 4)
            for k in range(extra):
                a, b = r.sample(range(nc), 2)
                z = np.zeros(nc)
                mode = r.randrange(3)
                if mode == 0:
                    z[a] = z[b] = 1.0
                elif mode == 1:
                    z[a], z[b] = 0.5, 1.5
                rows.append(z)
                idx.append(-1)
            pos = sorted(r.sample(range(len(cidx) + extra), extra))
            Zl, cl = list(Z), list(cidx)
            for p_, z, i_ in zip(pos, rows, idx):
                Zl.insert(p_, z)
                cl.insert(p_, i_)
            Z, cidx = np.array(Zl), np.array(cl)
        return Z, cidx, labels, (cond_vec, part_vec)
    return cv, cidx, labels, (cond_vec, part_vec)


def _spd(plan, n=None, salt=0):
    import random
    r = random.Random(plan['cov_seed'] + salt)
    n = plan['n_channel'] if n is None else n
    A = np.array([[r.randint(-2, 2) / 2.0 for _ in range(n)] for _ in range(n)])
    return A @ A.T + np.eye(n)


def _noise_candidates(e, L, Lt):
    """the i.i.d. noise term with the requested covariance factors applied; the statement fixes additivity and the sqrt
    scaling, not which triangle of the Cholesky factor is used, so both orientations count"""
    chan = [e] if L is None else [e @ L, e @ L.T]
    return [x for c in chan for x in ([c] if Lt is None else [Lt @ c, Lt.T @ c])]


def _model(plan):
    from rsatoolbox.model import ModelFixed, ModelWeighted, ModelInterpolate, ModelSelect
    from rsatoolbox.rdm import RDMs
    nc = plan['n_cond']
    iu = np.triu_indices(nc, 1)
    D = [_sqdist(p) for p in plan['points']]
    if plan['kind'] == 'fixed' and plan.get('int_rdm'):
        # a hand-written / categorical model RDM held in an integer dtype (points scaled to integers: D is 4x and integral)
        Di = np.rint(4 * D[0])
        m = ModelFixed('simfixedint', Di[iu].astype(np.int64))
        pred = Di
        theta = None
    elif plan['kind'] == 'fixed':
        m = ModelFixed('simfixed', RDMs(D[0][iu].reshape(1, -1)))
        pred = D[0]
        theta = None
    elif plan['kind'] == 'fixed_multi':
        # a fixed model built from a stack of RDMs (a group average): its prediction is the mean of the stack
        m = ModelFixed('simfixedmulti', RDMs(np.array([D[0][iu], D[1][iu]])))
        pred = (D[0] + D[1]) / 2.0
        theta = None
    elif plan['kind'] == 'select':
        # one of several candidate RDMs, chosen by the (integer) parameter
        m = ModelSelect('simselect', RDMs(np.array([D[0][iu], D[1][iu]])))
        theta = int(plan['theta'])
        pred = D[theta]
    else:
        cls = ModelInterpolate if plan['kind'] == 'interpolate' else ModelWeighted
        m = cls('sim' + plan['kind'], RDMs(np.array([D[0][iu], D[1][iu]])))
        theta = np.array(plan['theta'], dtype=float)
        pred = theta[0] * D[0] + theta[1] * D[1]
    return m, theta, pred


def _simulate(ctx, plan, noise, noise_cov, script=None, strict=False, model=None, trial_cov=None, design_override=None):
    from rsatoolbox.simulation import make_dataset
    m, theta, pred = _model(plan)
    if model is not None:
        m = model           # the caller's model object, reused across calls (pred is always recomputed from the plan)
    cv, cidx, labels, _ = _design(plan)
    if design_override is not None:
        cv, cidx = design_override       # the caller's own (re-used, edited) condition vector object
    seam = RngSeam(ctx, plan['serve_seed'], plan.get('faults'), script=script, strict_script=strict)
    with seam:
        kw = {}
        if plan.get('signal_cov'):
            kw['signal_cov_channel'] = _spd(plan, salt=7)        # part of the signal: the same in every replay
        if trial_cov is not None:
            kw['noise_cov_trial'] = trial_cov
        # settings read from an array or a parameter grid arrive as numpy scalars
        as_np = plan.get('arg_types') == 'np'
        I, Fl, B = (np.int64, np.float64, np.bool_) if as_np else (int, (lambda v: v), bool)
        ds = make_dataset(m, theta, cv, n_channel=I(plan['n_channel']), n_sim=I(plan['n_sim']), signal=Fl(plan['signal']),
                          noise=Fl(noise), noise_cov_channel=noise_cov, use_exact_signal=B(plan['use_exact_signal']),
                          use_same_signal=B(plan['use_same_signal']), **kw)
    return ds, seam, (m, theta, pred, cv, cidx, labels)


def _g_tag(pred):
    """signature tag only (never part of a verdict): does the LDL factorisation of the model's second-moment matrix,
    taken the way make_signal takes it, need a 2x2 pivot block?  Then L has entries ~1e14 and the factor L*sqrt(D) with
    the tiny off-diagonal of D zeroed is no factor of G -- the call-site class of the listed known finding"""
    try:
        import scipy.linalg as sl
        n = pred.shape[0]
        H = np.eye(n) - np.ones((n, n)) / n
        G = -0.5 * (H @ pred @ H)
        L, D, _ = sl.ldl(G)
        if np.abs(L).max() > 1e6 or np.abs(D - np.diag(np.diag(D))).max() > 0:
            return ':G-ldl-2x2-pivot'
    except Exception:
        pass
    return ''


def _rdm_from_data(meas, cidx, nc, Z=None):
    if Z is not None:
        means = np.linalg.lstsq(Z, meas, rcond=None)[0]      # condition patterns under an explicit design matrix
    else:
        means = np.array([meas[cidx == k].mean(axis=0) for k in range(nc)])
    return _sqdist(means) / meas.shape[1]


def _design_grid(plan, ctx):
    """make_design over a grid of (n_cond, n_part): every partition lists every condition exactly once"""
    from rsatoolbox.simulation import make_design
    ctx.components.update(['real:rsatoolbox.simulation.sim'])
    ctx.tick('op', op='design_grid', lo=plan['n_part_lo'], hi=plan['n_part_hi'])
    for n_part in range(plan['n_part_lo'], plan['n_part_hi']):
        for nc in range(1, plan['n_cond_hi']):
            try:
                cvec, pvec = make_design(nc, n_part)
            except Exception as e:
                ctx.violation('sim_ref.raises', f'make_design:raises:{type(e).__name__}', f'make_design({nc},{n_part}) raised {type(e).__name__}: {e}')
                return
            cvec, pvec = np.asarray(cvec), np.asarray(pvec)
            if cvec.shape != (nc * n_part,) or pvec.shape != (nc * n_part,):
                ctx.violation('sim_ref.clause2', 'make_design:shape', f'make_design({nc},{n_part}) returned {cvec.shape} / {pvec.shape} observations')
                return
            parts = sorted(set(pvec.tolist()))
            for part in parts:
                conds = sorted(cvec[pvec == part].tolist())
                if conds != sorted(set(cvec.tolist())) or len(conds) != nc:
                    ctx.violation('sim_ref.clause2', 'make_design:conditions',
                                  f'make_design({nc},{n_part}): partition {part} lists conditions {conds}')
                    return
            if len(parts) != n_part:
                ctx.violation('sim_ref.clause2', 'make_design:conditions', f'make_design({nc},{n_part}) has {len(parts)} partitions')
                return
            ctx.probe('design_grid_cells')
    ctx.nontrivial = True
    ctx.behaviour('design_grid', plan['n_part_lo'])


def _signal_scale(plan, ctx):
    """exact signal, zero noise, spare channels: RDM by condition = signal * model RDM for signal strengths from 1e-16 to
    1e12, to 1e-4 relative (the unchanged tree is right to ~1e-6)"""
    ctx.components.update(['real:rsatoolbox.simulation.sim', 'real:rsatoolbox.model', 'stub:numpy.random.uniform (values served by the simulator)'])
    nc = plan['n_cond']
    for sgn in plan['signals']:
        p2 = {**plan, 'signal': sgn}
        ctx.tick('op', op='signal_scale', signal=sgn)
        try:
            ds, _, (m, theta, pred, cv, cidx, labels) = _simulate(ctx, p2, 0, None)
        except HarnessError:
            raise
        except Exception as e:
            ctx.violation('sim_ref.raises', f'make_dataset:raises:{type(e).__name__}', f'make_dataset(signal={sgn}) raised {type(e).__name__}: {e}')
            return
        exp = sgn * pred
        ref = float(np.max(np.abs(exp)))
        for s_, d in enumerate(ds):
            got = _rdm_from_data(np.asarray(d.measurements), np.asarray(cidx), nc)
            rel = float(np.max(np.abs(got - exp))) / ref
            if not rel <= 1e-4:
                ctx.violation('sim_ref.clause1', 'make_dataset:exact-rdm:signal-scale',
                              f'signal={sgn}: squared-Euclidean RDM of the zero-noise exact data differs from signal * model RDM by {rel:.3g} '
                              f'relative (simulation {s_}; row 0 {got[0].tolist()} vs {exp[0].tolist()})')
                return
        ctx.probe('signal_scale_cells')
    ctx.nontrivial = True
    ctx.behaviour('signal_scale', plan['kind'])


def execute(plan, ctx):
    import rsatoolbox  # noqa
    from scipy.special import ndtri
    if plan.get('mode') == 'design_grid':
        return _design_grid(plan, ctx)
    if plan.get('mode') == 'signal_scale':
        return _signal_scale(plan, ctx)
    ctx.components.update(['real:rsatoolbox.simulation.sim', 'real:rsatoolbox.rdm.calc_rdm', 'real:rsatoolbox.model',
                           'real:scipy.linalg.ldl', 'stub:numpy.random.uniform (values served by the simulator)'])
    nc, n_ch, n_sim = plan['n_cond'], plan['n_channel'], plan['n_sim']
    ctx.tick('op', op='make_dataset', n_cond=nc, n_channel=n_ch, n_sim=n_sim)
    cov = _spd(plan) if plan['noise_cov'] else None
    shared_model = _model(plan)[0]
    try:
        if plan.get('warmup', True) and plan['n_cond'] % 3 == 0 and plan.get('mode') is None:
            # an earlier simulation in the same session from a *different* model that happens to carry the same name, size and
            # parameters (candidate models built in a loop): nothing of it may shape this one
            try:
                other = {**plan, 'points': [[[c_ * 1.5 + 0.25 * (i_ % 2) for c_ in row[::-1]] for i_, row in enumerate(pp[::-1])] for pp in plan['points']]}
                _simulate(ctx, other, 0, None)
                ctx.probe('namesake_model_simulated_before')
            except HarnessError:
                raise
            except Exception:
                pass
        if plan.get('warmup', True) and plan['n_cond'] % 2 == 0:
            # an earlier simulation from the same model object: later ones must still reproduce the model's RDM
            _simulate(ctx, plan, 0, None, model=shared_model)
        n_obs_plan = len(_design(plan)[1])
        tcov = _spd(plan, n=n_obs_plan, salt=3) if plan.get('noise_cov_trial') else None
        ds, seam, (m, theta, pred, cv, cidx, labels) = _simulate(ctx, plan, plan['noise'], cov,
                                                                 script=plan.get('draw_script'),
                                                                 strict=plan.get('strict_script', False), model=shared_model,
                                                                 trial_cov=tcov)
    except HarnessError:
        raise
    except Exception as e:
        if n_ch < nc:
            ctx.probe('fewer_channels_not_judged')
            return
        ctx.violation('sim_ref.raises', f'make_dataset:raises:{type(e).__name__}',
                      f'make_dataset raised {type(e).__name__}: {e} on admissible arguments')
        return
    ctx.draw_script = seam.script_of_served()
    ctx.nontrivial = True
    n_obs = len(cidx)
    served = seam.served
    # ---- clause 2: design, descriptors
    from rsatoolbox.simulation import make_design
    c_first, p_first = make_design(nc, plan['n_part'])
    try:
        # the caller re-uses the vectors it was given (shuffles the presentation order, renumbers the partitions): a later
        # design with the same arguments is still the canonical one
        np.asarray(c_first)[...] = np.asarray(c_first)[::-1].copy() + 7
        np.asarray(p_first)[...] = -1
    except (ValueError, TypeError):
        pass
    c0, p0 = make_design(nc, plan['n_part'])
    for part in range(plan['n_part']):
        conds = sorted(np.asarray(c0)[np.asarray(p0) == part].tolist())
        if conds != [float(k) for k in range(nc)]:
            ctx.violation('sim_ref.clause2', 'make_design:conditions',
                          f'make_design({nc},{plan["n_part"]}): partition {part} lists conditions {conds}')
    if len(c0) != nc * plan['n_part'] or sorted(set(np.asarray(p0).tolist())) != [float(k) for k in range(plan['n_part'])]:
        ctx.violation('sim_ref.clause2', 'make_design:shape', f'make_design({nc},{plan["n_part"]}) returned {len(c0)} observations')
    if len(ds) != n_sim:
        ctx.violation('sim_ref.clause2', 'make_dataset:n_sim', f'{len(ds)} datasets returned for n_sim={n_sim}')
        return
    for s, d in enumerate(ds):
        if d.measurements.shape != (n_obs, n_ch):
            ctx.violation('sim_ref.clause2', 'make_dataset:shape', f'dataset {s} has shape {d.measurements.shape}, expected {(n_obs, n_ch)}')
            return
        od = d.obs_descriptors.get('cond_vec')
        if od is None or not np.array_equal(np.asarray(od, dtype=float), np.asarray(cv, dtype=float)):
            ctx.violation('sim_ref.clause2', 'make_dataset:cond_vec', f'dataset {s} does not carry the condition vector as obs descriptor')
            return
        des = d.descriptors
        ok = (des.get('signal') == plan['signal'] and des.get('noise') == plan['noise'] and des.get('model') == m.name
              and (des.get('theta') is theta or np.array_equal(np.asarray(des.get('theta'), dtype=float), np.asarray(theta, dtype=float))
                   if theta is not None else des.get('theta') is None))
        if not ok:
            ctx.violation('sim_ref.clause2', 'make_dataset:descriptors', f'dataset {s} descriptors {des} do not record signal/noise/model/theta')
            return
    if n_ch < nc:
        ctx.probe('fewer_channels_not_judged')
        ctx.behaviour('fewer-channels', plan['kind'], plan['design'])
        return
    # ---- classify the served draws: signal-shaped (n_cond x n_channel) and noise-shaped (n_obs x n_channel)
    shapes = [tuple(e['shape']) for e in served if e['fn'] == 'uniform']
    if len(shapes) != len(served):
        ctx.violation('sim_ref.clause3', 'make_dataset:draw-kind', f'unexpected draw requests {[e["fn"] for e in served]}')
        return
    sig_shape, noise_shape = (nc, n_ch), (n_obs, n_ch)
    exp_seq = ([sig_shape] + [noise_shape] * n_sim) if plan['use_same_signal'] else [sig_shape, noise_shape] * n_sim
    if sorted(shapes) != sorted(exp_seq):
        which = 'same-signal' if plan['use_same_signal'] else 'fresh-signal'
        ctx.violation('sim_ref.clause3', f'make_dataset:{which}:draw-count',
                      f'use_same_signal={plan["use_same_signal"]}, n_sim={n_sim}: expected draws of shapes {exp_seq}, served {shapes}')
        return
    # noise terms from the served draws (in request order: the noise draw of simulation s is the s-th noise-shaped one;
    # if signal and noise shapes coincide the documented order signal-then-noise is used)
    if sig_shape != noise_shape:
        noise_draws = [e for e in served if tuple(e['shape']) == noise_shape]
        sig_draws = [e for e in served if tuple(e['shape']) == sig_shape]
    else:
        if plan['use_same_signal']:
            sig_draws, noise_draws = served[:1], served[1:]
        else:
            sig_draws, noise_draws = served[0::2], served[1::2]
    L = np.linalg.cholesky(cov) if cov is not None else None
    Lt = np.linalg.cholesky(tcov) if tcov is not None else None
    # the signal terms: a replay of the identical draw history with zero noise variance
    script = seam.script_of_served()
    try:
        d0, _, _ = _simulate(ctx, plan, 0, None, script=script, strict=True, model=shared_model)
    except HarnessError:
        raise
    except Exception as e:
        ctx.violation('sim_ref.clause4', 'make_dataset:replay-raises', f'replay with zero noise raised {type(e).__name__}: {e}')
        return
    sig_terms = [np.array(d.measurements, dtype=float) for d in d0]
    # measured on the unchanged tree (1500 plans): max relative error 2.5e-6 when n_channel == n_cond (the mean removal
    # across channels makes the draw matrix singular and the LDL clamp at 1e-15 then costs accuracy), 1.2e-7 otherwise
    tol = 1e-3 if n_ch == nc else 1e-5
    scale = 1 + float(np.max(np.abs(pred))) * plan['signal']
    # ---- clause 4a: the run's own noise term is the served draw, scaled by sqrt(noise), with the requested covariance
    # factors, added to the signal term
    lmax = 1 + max(float(np.max(np.abs(L))) if L is not None else 0.0, float(np.max(np.abs(Lt))) if Lt is not None else 0.0)
    for s, d in enumerate(ds):
        iid0 = ndtri(np.asarray(noise_draws[s]['result']))
        n_act = np.asarray(d.measurements, dtype=float) - sig_terms[s]
        atol = 1e-7 * (1 + float(np.max(np.abs(iid0)))) * scale * lmax ** 2 * max(n_ch, n_obs) * (1 + np.sqrt(plan['noise']))
        if not any(np.allclose(n_act, c, atol=atol, rtol=0) for c in _noise_candidates(iid0 * np.sqrt(plan['noise']), L, Lt)):
            which = 'noise-additive' if (L is None and Lt is None) else 'noise-cov'
            ctx.violation('sim_ref.clause4', 'make_dataset:' + which,
                          f'simulation {s}: data - zero-noise replay is not the served noise draw scaled by sqrt({plan["noise"]})'
                          f'{"" if which == "noise-additive" else " times the Cholesky factors of the requested covariances"} '
                          f'(channel cov {L is not None}, trial cov {Lt is not None}, max abs term {float(np.max(np.abs(n_act)))})')
            return
    ctx.probe('noise_term_checked' + ('_trialcov' if Lt is not None else ''))
    # ---- clause 3: same signal / fresh signal
    if n_sim > 1:
        if plan['use_same_signal']:
            for s in range(1, n_sim):
                if not np.allclose(sig_terms[s], sig_terms[0], atol=1e-8 * scale, rtol=0):
                    ctx.violation('sim_ref.clause3', 'make_dataset:same-signal:differs',
                                  f'use_same_signal=True: signal term of simulation {s} differs from simulation 0 '
                                  f'(max abs diff {float(np.max(np.abs(sig_terms[s] - sig_terms[0])))})')
                    return
            ctx.probe('same_signal_checked')
        elif not (plan['use_exact_signal'] and n_ch <= nc + 1):
            # (with the exact option and no spare channel the signal is determined by the model up to sign/rotation in a
            #  space of dimension <= 1, so different draws may legitimately give the same signal: judged at the seam only)
            for s in range(1, n_sim):
                differ = not np.array_equal(np.asarray(sig_draws[s]['result']), np.asarray(sig_draws[0]['result']))
                if (differ and np.allclose(sig_terms[s], sig_terms[0], atol=1e-9 * scale, rtol=0) and float(np.max(np.abs(pred))) > 0
                        and plan['signal'] != 0):      # (a null simulation has the same -- zero -- signal term every time)
                    ctx.violation('sim_ref.clause3', 'make_dataset:fresh-signal:reused',
                                  f'default (fresh signal): simulation {s} has the same signal as simulation 0 although the served draws differ')
                    return
            ctx.probe('fresh_signal_checked')
    if plan['design'] == 'matrix_mixed':
        # data = Z U sqrt(signal) + noise: the signal term of every observation is its design row times the condition patterns
        for s in range(n_sim):
            U = np.linalg.lstsq(cv, sig_terms[s], rcond=None)[0]
            res = float(np.max(np.abs(cv @ U - sig_terms[s])))
            if res > 1e-7 * scale * (1 + float(np.sqrt(max(plan['noise'], 1))) * 6):
                ctx.violation('sim_ref.clause4', 'make_dataset:design-matrix:signal-not-ZU',
                              f'simulation {s}: explicit design matrix with compound/weighted/null trials: the signal term is not '
                              f'the design matrix times one set of condition patterns (residual {res})')
                return
        ctx.probe('design_matrix_rows_checked')
    # ---- clause 1: exact signal -> RDM of the signal term equals signal * model RDM (only "whenever no signal channel
    # covariance is imposed")
    if plan['use_exact_signal'] and plan.get('signal_cov'):
        ctx.probe('signal_cov_imposed_exact_rdm_not_judged')
    if plan['use_exact_signal'] and not plan.get('signal_cov'):
        exp = plan['signal'] * pred
        for s in range(n_sim):
            got = _rdm_from_data(sig_terms[s], cidx, nc, Z=cv if plan['design'] == 'matrix_mixed' else None)
            err = float(np.max(np.abs(got - exp)))
            if err > tol * scale:
                ctx.violation('sim_ref.clause1', 'make_dataset:exact-rdm' + _g_tag(pred),
                              f'simulation {s}: squared-Euclidean RDM of the simulated signal differs from signal*model RDM by {err} '
                              f'(signal={plan["signal"]}, design={plan["design"]}, n_cond={nc}, n_channel={n_ch}); '
                              f'got row0 {got[0].tolist()} expected {exp[0].tolist()}')
                return
        ctx.probe('exact_rdm_checked')
        if plan['noise'] == 0 and plan['design'] not in ('matrix', 'matrix_mixed'):
            from rsatoolbox.rdm import calc_rdm
            # "simulation and RDM estimation are mutually consistent": the estimate from every simulated dataset, one
            # after the other (an estimate must not disturb the datasets still to be estimated from)
            for s in range(n_sim):
                try:
                    d_est = ds[s]
                    if theta is not None and not isinstance(theta, int):
                        # (calc_rdm does not take datasets whose dataset-level descriptors hold arrays -- the theta of a
                        #  weighted model: the estimate is made from the same measurements and condition vector without it)
                        from rsatoolbox.data import Dataset
                        d_est = Dataset(np.array(ds[s].measurements, copy=True), obs_descriptors={'cond_vec': np.array(ds[s].obs_descriptors['cond_vec'], copy=True)},
                                        descriptors={k: v for k, v in ds[s].descriptors.items() if k != 'theta'})
                    r = calc_rdm(d_est, method='euclidean', descriptor='cond_vec')
                except Exception:
                    # calc_rdm is C01's primitive -- observed, not judged here
                    ctx.probe('calc_rdm_failed_not_judged')
                    break
                lab = np.asarray(r.pattern_descriptors['cond_vec'], dtype=float)
                mat = r.get_matrices()[0]
                for i in range(nc):
                    for j in range(nc):
                        ki = int(np.where(labels == lab[i])[0][0])
                        kj = int(np.where(labels == lab[j])[0][0])
                        if abs(mat[i, j] - exp[ki, kj]) > tol * scale:
                            ctx.violation('sim_ref.clause1', 'make_dataset:calc_rdm-consistency',
                                          f'calc_rdm(euclidean, cond_vec) of zero-noise exact data, simulation {s}: pair of labels '
                                          f'({lab[i]},{lab[j]}) has {mat[i, j]}, signal*model gives {exp[ki, kj]}')
                            return
                ctx.probe('calc_rdm_consistency_checked')
            for s, d in enumerate(ds):
                od = d.obs_descriptors.get('cond_vec')
                if od is None or not np.array_equal(np.asarray(od, dtype=float), np.asarray(cv, dtype=float)):
                    ctx.violation('sim_ref.clause2', 'make_dataset:cond_vec:after-estimation',
                                  f'dataset {s} no longer carries the condition vector it was simulated with after RDMs were estimated '
                                  f'from the simulated datasets: {np.asarray(od).tolist()} vs {np.asarray(cv).tolist()}')
                    return
    # ---- clause 4: additivity and sqrt scaling by replay of the identical draw history
    v1, v2 = 1.0, float(plan['noise2'])
    try:
        d1, _, _ = _simulate(ctx, plan, v1, None, script=script, strict=True, model=shared_model)
        d2, _, _ = _simulate(ctx, plan, v2, None, script=script, strict=True, model=shared_model)
        dc = None
        if cov is not None or tcov is not None:
            dc, _, _ = _simulate(ctx, plan, v1, cov, script=script, strict=True, model=shared_model, trial_cov=tcov)
    except HarnessError:
        raise
    except Exception as e:
        ctx.violation('sim_ref.clause4', 'make_dataset:replay-raises', f'replay under changed noise raised {type(e).__name__}: {e}')
        return
    for s in range(n_sim):
        n1 = d1[s].measurements - d0[s].measurements
        n2 = d2[s].measurements - d0[s].measurements
        iid = ndtri(np.asarray(noise_draws[s]['result']))
        sc = 1 + float(np.max(np.abs(iid)))
        if not np.allclose(n1, iid * np.sqrt(v1), atol=1e-8 * sc * scale, rtol=0):
            ctx.violation('sim_ref.clause4', 'make_dataset:noise-additive',
                          f'simulation {s}: data(noise={v1}) - data(noise=0) is not the served noise draw scaled by sqrt({v1}) '
                          f'(max abs diff {float(np.max(np.abs(n1 - iid * np.sqrt(v1))))})')
            return
        if not np.allclose(n2, np.sqrt(v2 / v1) * n1, atol=1e-8 * sc * scale * np.sqrt(v2), rtol=0):
            ctx.violation('sim_ref.clause4', 'make_dataset:noise-sqrt-scaling',
                          f'simulation {s}: noise term at variance {v2} is not sqrt({v2}/{v1}) times the term at variance {v1}')
            return
        if dc is not None:
            nc_ = dc[s].measurements - d0[s].measurements
            if not any(np.allclose(nc_, c, atol=1e-7 * sc * scale * lmax ** 2 * max(n_ch, n_obs), rtol=0)
                       for c in _noise_candidates(n1, L, Lt)):
                ctx.violation('sim_ref.clause4', 'make_dataset:noise-cov',
                              f'simulation {s}: noise with channel/trial covariance is not the i.i.d. noise term times the Cholesky factors')
                return
    ctx.probe('additivity_replayed')
    # ---- clause 2 again, after the later simulations with other noise settings: each dataset still carries *its own*
    # parameters (a descriptor dict shared between calls would now show the last call's)
    for s, d in enumerate(ds):
        des = d.descriptors
        if not (des.get('signal') == plan['signal'] and des.get('noise') == plan['noise'] and des.get('model') == m.name):
            ctx.violation('sim_ref.clause2', 'make_dataset:descriptors-changed-later',
                          f'dataset {s} of the first simulation reported signal/noise/model {plan["signal"]}/{plan["noise"]}/{m.name} '
                          f'right after the call; after later simulations it reports {des.get("signal")}/{des.get("noise")}/{des.get("model")}')
            return
    ctx.probe('descriptors_rechecked')
    # ---- the caller re-orders its own condition vector in place (another trial order for the next session) and simulates
    # again with that same array object: the new data follow the vector as it is now
    if (isinstance(cv, np.ndarray) and cv.ndim == 1 and plan['use_exact_signal'] and not plan.get('signal_cov') and n_ch >= nc
            and len(cv) > 1 and plan.get('perm_seed', 0) % 3 == 0):
        import random as _random
        order = list(range(len(cv)))
        _random.Random(plan['perm_seed'] + 17).shuffle(order)
        try:
            _simulate(ctx, plan, 0, None, model=shared_model, design_override=(cv, cidx))      # this very object, as it is ...
            cv[:] = cv[order]                                                                  # ... and right afterwards re-ordered
        except HarnessError:
            raise
        except Exception:
            order = None                  # (a read-only vector)
        if order is not None:
            cidx2 = np.asarray(cidx)[order]
            try:
                ds2, _, _ = _simulate(ctx, plan, 0, None, model=shared_model, design_override=(cv, cidx2))
            except HarnessError:
                raise
            except Exception as e:
                ctx.violation('sim_ref.raises', f'make_dataset:raises-after-reorder:{type(e).__name__}',
                              f'make_dataset with the re-ordered condition vector raised {type(e).__name__}: {e}')
                return
            exp2 = plan['signal'] * pred
            for s, d in enumerate(ds2):
                got = _rdm_from_data(np.asarray(d.measurements), cidx2, nc)
                err = float(np.max(np.abs(got - exp2)))
                od = d.obs_descriptors.get('cond_vec')
                if err > tol * scale or od is None or not np.array_equal(np.asarray(od, dtype=float), np.asarray(cv, dtype=float)):
                    ctx.violation('sim_ref.clause1', 'make_dataset:exact-rdm:after-vector-reordered',
                                  f'simulation {s} after the caller re-ordered its condition vector in place: RDM by condition (rows '
                                  f'grouped by the vector as passed) differs from signal*model RDM by {err}')
                    return
            ctx.probe('reordered_vector_resimulated')
    rank = int(np.linalg.matrix_rank(pred)) if nc > 1 else 0
    ctx.behaviour(plan['kind'], 'rank%d/%d' % (rank, nc), plan['design'], plan['n_part'], n_sim, n_ch - nc,
                  plan['use_exact_signal'], plan['use_same_signal'], plan['signal'], plan['noise'], plan['noise_cov'])
