"""C10 -- RDM container operations never change which value belongs to which pair.

A seeded history of structural operations over a pool of aliased RDMs objects built from identity-encoded roots; after
every operation the target/result is compared with its value-semantics twin (sim/ops_rdms.py, sim/pool.py), and every
other live object with its snapshot (those mismatches belong to C12 and are only counted here)."""
from __future__ import annotations
from sim.pool import Pool
from sim.ops_rdms import RdmsOps, gen_family, gen_op
from sim.rngseam import RngSeam

PROPERTY = 'C10'
RULE = ('seeded histories (3-40 ops) over 1-3 root RDMs objects sharing a condition set (2-8 conditions, 1-4 RDMs each, NaN '
        'cells, descriptor types list/array/str/int, duplicate group values): indexing, iteration, subset/subsample of RDMs '
        'or conditions, reorder, sort_by (alpha / explicit list), append, concat (incl. target_pdesc and differently ordered '
        'operands), copy, vector/matrix/dict round trips, from_partials, permute/inverse, to_df, size recovery for n=1..14; '
        'after a producer the next op is with probability 1/2 an in-place mutator on the result or its source. Non-trivial = '
        'at least one op executed on admissible arguments; distinct = distinct (op, producer of its operand, argument class) '
        'signatures.')
ASSUMPTIONS = ['twin semantics as tabulated in DESIGN.md Appendix B; identity-encoded values make every cell attributable',
               'from_partials keeps only the chosen pattern descriptor by documentation: loss of the other pattern descriptors '
               'there is not judged']
BUDGET = {'quick': {'runs': 8000, 'cap_s': 30, 'wall_s': 100, 'chunk': 40},
          'thorough': {'runs': 150000, 'cap_s': 60, 'wall_s': 1500, 'chunk': 250}}

WEIGHTS = [('getitem_int', 2), ('getitem_list', 2), ('iterate', 1), ('subset', 3), ('subsample', 3), ('subset_pattern', 4),
           ('subsample_pattern', 3), ('reorder', 4), ('sort_by_alpha', 3), ('sort_by_list', 3), ('append', 3), ('concat', 4),
           ('copy', 2), ('roundtrip_matrix', 2), ('roundtrip_vector', 1), ('roundtrip_dict', 2), ('to_df', 3), ('permute', 2),
           ('from_partials', 2), ('size_recovery', 1), ('array_write', 1), ('relabel', 1.5), ('redo_after_inplace', 2)]
INPLACE = [('reorder', 3), ('sort_by_alpha', 2), ('sort_by_list', 2), ('append', 2), ('array_write', 1), ('relabel', 1)]
PRODUCERS = {'getitem_int', 'getitem_list', 'iterate', 'subset', 'subsample', 'subset_pattern', 'subsample_pattern', 'concat',
             'copy', 'roundtrip_matrix', 'roundtrip_vector', 'roundtrip_dict', 'permute', 'from_partials'}


def gen_ops(rng, n, weights=WEIGHTS, inplace=INPLACE, producers=PRODUCERS):
    ops = []
    while len(ops) < n:
        o = gen_op(rng, weights)
        ops.append(o)
        if o['op'] in producers and rng.chance(0.5) and len(ops) < n:
            m = gen_op(rng, inplace)
            m['t'] = -1 if rng.chance(0.5) else -2      # mutate the result, or its source
            ops.append(m)
    return ops


def gen_plan(rng, tier, index):
    big = tier == 'thorough'
    fam = gen_family(rng)
    n = rng.randint(3, 40 if rng.chance(0.3) else 12)
    return {'family': fam, 'ops': gen_ops(rng, n), 'faults': {'rate': 0.3, 'kinds': ['identity_shuffle', 'reversed_shuffle', 'rotate_shuffle']}}


def directed_plans(tier):
    fam = {'roots': [{'rdm_uids': [4, 9], 'cond_uids': [7, 3, 12, 5], 'measure': 'euclidean', 'descriptors': {'session': 's1'},
                      'rdm_desc': {'grp': {'values': ['b', 'a'], 'container': 'list'}, 'extra': {'values': ['x4', 'x9'], 'container': 'array'}},
                      'pat_desc': {'grp': {'values': [30, 10, 30, 20], 'container': 'array'},
                                   'extra': {'values': ['c7', 'c3', 'c12', 'c5'], 'container': 'list'}}, 'nan_cells': []}]}
    plans = []
    base = {'t': 0, 'u': 0, 'a': [1, 2, 3, 4, 5, 6], 'flag': False, 'flag2': False}
    for n in range(14):
        plans.append({'family': fam, 'ops': [{**base, 'op': 'size_recovery', 'a': [n, 0, 0, 0, 0, 0]}], 'faults': {'rate': 0, 'kinds': []}})
    # every (producer, in-place mutator) pair on the result and on the source (small objects)
    for prod in sorted(PRODUCERS):
        for mut, _ in INPLACE:
            for tgt in (-1, -2):
                plans.append({'family': fam, 'faults': {'rate': 0, 'kinds': []},
                              'ops': [{**base, 'op': prod}, {**base, 'op': mut, 't': tgt}, {**base, 'op': 'to_df', 't': -1}]})
    # exhaustive short sequences over a small object: every ordered pair of operations (thorough: every ordered triple),
    # each applied to the most recent result
    names = [n for n, _ in WEIGHTS if n != 'size_recovery']
    fam2 = {'roots': [dict(fam['roots'][0]), {**fam['roots'][0], 'rdm_uids': [21], 'descriptors': {'session': 's2'},
                                              'rdm_desc': {'grp': {'values': ['a'], 'container': 'list'}, 'extra': {'values': ['x21'], 'container': 'list'}}}]}
    for a in names:
        for b in names:
            if tier == 'thorough':
                for c in names:
                    plans.append({'family': fam2, 'faults': {'rate': 0, 'kinds': []},
                                  'ops': [{**base, 'op': a, 'flag': True}, {**base, 'op': b, 't': -1, 'a': [2, 1, 4, 3, 0, 5]}, {**base, 'op': c, 't': -1, 'flag2': True}]})
            else:
                plans.append({'family': fam2, 'faults': {'rate': 0, 'kinds': []},
                              'ops': [{**base, 'op': a, 'flag': True}, {**base, 'op': b, 't': -1, 'a': [2, 1, 4, 3, 0, 5]}]})
    return plans


def summarize(plan):
    return {'roots': [{'n_rdm': len(r['rdm_uids']), 'n_cond': len(r['cond_uids'])} for r in plan['family']['roots']],
            'ops': [{'op': o['op'], 't': o['t'], 'u': o['u']} for o in plan['ops']]}


def execute(plan, ctx, prop=PROPERTY):
    import rsatoolbox  # noqa
    ctx.components.update(['real:rsatoolbox.rdm.rdms', 'real:rsatoolbox.rdm.combine', 'real:rsatoolbox.io.pandas',
                           'real:rsatoolbox.util.descriptor_utils', 'stub:numpy.random (permutation for permute_rdms served)'])
    pool = Pool(ctx, prop)
    seam = RngSeam(ctx, plan['serve_seed'], plan.get('faults'), script=plan.get('draw_script'),
                   strict_script=plan.get('strict_script', False))
    with seam:
        ops = RdmsOps(pool, plan['family'])
        for o in plan['ops']:
            ops.run(o)
    ctx.draw_script = seam.script_of_served()
