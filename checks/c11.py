"""C11 -- dataset operations keep every observation attached to its own descriptors.

Pool machine over Dataset / TemporalDataset objects built from identity-encoded roots (sim/ops_data.py): after every
operation the result/target is compared with its value-semantics twin keyed by observation/channel/time ids."""
from __future__ import annotations
from sim.pool import Pool
from sim.ops_data import DataOps, gen_data_family  # noqa
from sim.ops_rdms import gen_op

PROPERTY = 'C11'
RULE = ('seeded histories (2-25 ops) over 1-2 root datasets (flat or temporal; 1-40 observations, 1-5 channels, 1-5 time points '
        'incl. size-1 dimensions; int/str labels with duplicates; list/array descriptors): split/subset by obs, channel, time; '
        'sort_by (in place); merge (preferring the parts of one split); odd-even and nested odd-even splits; bin_time '
        '(contiguous, interleaved, partial bins); time_as_observations / time_as_channels; DataFrame round trip; copy; '
        'average_dataset_by; get_measurements_tensor; array writes. Non-trivial = at least one op executed on admissible '
        'arguments; distinct = distinct (op, producer of operand, argument/shape class) signatures.')
ASSUMPTIONS = ['twin semantics as tabulated in DESIGN.md Appendix B', 'DataFrame round trip keeps only the channel descriptor '
               'used for the column names (documented): loss of other channel descriptors there is not judged']
BUDGET = {'quick': {'runs': 8000, 'cap_s': 30, 'wall_s': 100, 'chunk': 40},
          'thorough': {'runs': 150000, 'cap_s': 60, 'wall_s': 1500, 'chunk': 250}}

WEIGHTS = [('split_obs', 3), ('split_channel', 2), ('split_time', 2), ('subset_obs', 3), ('subset_channel', 2), ('subset_time', 2),
           ('sort_by', 4), ('merge', 4), ('odd_even_split', 2), ('nested_odd_even_split', 1.5), ('bin_time', 3),
           ('time_as_observations', 3), ('time_as_channels', 3), ('df_roundtrip', 2), ('copy_ds', 1.5), ('average_by', 2),
           ('array_write_ds', 1), ('measurements_tensor', 1), ('redo_after_sort', 3), ('redo_after_relabel', 2), ('to_df_columns', 1.5)]
INPLACE = [('sort_by', 3), ('array_write_ds', 1)]
PRODUCERS = {'split_obs', 'split_channel', 'split_time', 'subset_obs', 'subset_channel', 'subset_time', 'merge', 'odd_even_split',
             'nested_odd_even_split', 'bin_time', 'time_as_observations', 'time_as_channels', 'df_roundtrip', 'copy_ds'}


def gen_ops(rng, n, weights=WEIGHTS):
    ops = []
    while len(ops) < n:
        o = gen_op(rng, weights)
        ops.append(o)
        if o['op'] in PRODUCERS and len(ops) < n:
            if o['op'] == 'split_obs' and rng.chance(0.5):
                m = gen_op(rng, [('merge', 1)])
                m['t'], m['flag'] = -1, True
                ops.append(m)
            elif rng.chance(0.45):
                m = gen_op(rng, INPLACE)
                m['t'] = -1 if rng.chance(0.5) else -2
                ops.append(m)
    return ops


def gen_plan(rng, tier, index):
    fam = gen_data_family(rng)
    n = rng.randint(2, 25 if rng.chance(0.3) else 9)
    return {'family': fam, 'ops': gen_ops(rng, n)}


def directed_plans(tier):
    base = {'t': 0, 'u': 0, 'a': [0, 2, 3, 4, 5, 6], 'flag': False, 'flag2': False}
    plans = [{'mode': 'bytes_labels', 'family': {'roots': []}, 'ops': []}, {'mode': 'mixed_labels', 'family': {'roots': []}, 'ops': []}]
    ch = {'roi': {'values': [1], 'container': 'list'}, 'name': {'values': ['ch3'], 'container': 'list'}}
    # all shapes incl. single observation / channel / time point for the temporal conversions
    for n_obs in (1, 2):
        for n_ch in (1, 2):
            for n_t in (1, 2, 3):
                cu = [3, 9][:n_ch]
                chd = {'roi': {'values': [1, 2][:n_ch], 'container': 'list'}, 'name': {'values': ['ch3', 'ch9'][:n_ch], 'container': 'array'}}
                root = {'temporal': True, 'ou': [5, 8][:n_obs], 'cu': cu, 'tu': [2, 7, 4][:n_t],
                        'obs_desc': {'cond': {'values': ['b', 'a'][:n_obs], 'container': 'list'}, 'run': {'values': [1, 1][:n_obs], 'container': 'array'}},
                        'ch_desc': chd, 'time_desc': {}, 'descriptors': {'subj': 's1', 'sess': 1}}
                for op in ('time_as_observations', 'time_as_channels', 'split_time', 'bin_time', 'split_obs', 'sort_by'):
                    plans.append({'family': {'roots': [root]}, 'ops': [{**base, 'op': op}, {**base, 'op': 'sort_by', 't': -1}]})
    # exhaustive short sequences: every ordered pair (thorough: triple) of operations on a small temporal and a small flat root
    names = [n for n, _ in WEIGHTS]
    troot = {'temporal': True, 'ou': [5, 8, 2, 9], 'cu': [3, 9], 'tu': [7, 2, 4],
             'obs_desc': {'cond': {'values': ['b', 'a', 'b', 'a'], 'container': 'list'}, 'run': {'values': [2, 1, 1, 2], 'container': 'array'}},
             'ch_desc': {'roi': {'values': [1, 2], 'container': 'list'}, 'name': {'values': ['ch3', 'ch9'], 'container': 'array'}},
             'time_desc': {}, 'descriptors': {'subj': 's1', 'sess': 1}}
    froot = {**troot, 'temporal': False, 'tu': [], 'ou': [15, 18, 12, 19]}
    for a in names:
        for b in names:
            if tier == 'thorough':
                for c in names:
                    plans.append({'family': {'roots': [troot, froot]},
                                  'ops': [{**base, 'op': a, 'flag': True}, {**base, 'op': b, 't': -1, 'a': [1, 1, 0, 3, 0, 5]}, {**base, 'op': c, 't': -1}]})
            else:
                plans.append({'family': {'roots': [troot, froot]},
                              'ops': [{**base, 'op': a, 'flag': True}, {**base, 'op': b, 't': -1, 'a': [1, 1, 0, 3, 0, 5]}]})
    return plans


def summarize(plan):
    return {'roots': [{'temporal': r['temporal'], 'n_obs': len(r['ou']), 'n_channel': len(r['cu']), 'n_time': len(r.get('tu', []))}
                      for r in plan['family']['roots']],
            'ops': [{'op': o['op'], 't': o['t'], 'u': o['u']} for o in plan['ops']]}


def _bytes_labels(plan, ctx):
    """label type bytes (what a descriptor read from an HDF5 file may hold): selections by one label, by a list of labels and
    splits pick exactly the rows carrying it, for Dataset and TemporalDataset, list- and array-held"""
    import numpy as np
    from rsatoolbox.data import Dataset, TemporalDataset
    labs = [b'face', b'house', b'face', b'cat', b'house', b'face']
    ctx.tick('op', op='bytes_labels')
    for temporal in (False, True):
        for as_array in (False, True):
            m = np.arange(6 * 2 * (3 if temporal else 1), dtype=float).reshape((6, 2, 3) if temporal else (6, 2)) + 0.5
            od = {'cond': np.array(labs) if as_array else list(labs), 'row': list(range(6))}
            ds = (TemporalDataset(m, obs_descriptors=od, channel_descriptors={'ch': [b'a', b'b']}, time_descriptors={'time': [0.0, 1.0, 2.0]})
                  if temporal else Dataset(m, obs_descriptors=od, channel_descriptors={'ch': [b'a', b'b']}))
            what = f'{"TemporalDataset" if temporal else "Dataset"}, {"array" if as_array else "list"} of bytes labels'
            for value, exp in ((b'face', [0, 2, 5]), ([b'face'], [0, 2, 5]), ([b'cat', b'house'], [1, 3, 4]), (b'dog', [])):
                try:
                    got = [int(x) for x in ds.subset_obs('cond', value).obs_descriptors['row']]
                except Exception as e:
                    if not exp:
                        continue          # (a selection matching nothing may be refused)
                    ctx.violation('dataset_twin.raises', f'subset_obs:bytes-label:raises:{type(e).__name__}', f'subset_obs(cond, {value!r}) raised {type(e).__name__}: {e} ({what})')
                    return
                if got != exp:
                    ctx.violation('dataset_twin.content', 'subset_obs:content:obs:bytes-label',
                                  f'subset_obs(cond, {value!r}) returned rows {got}, the rows carrying it are {exp} ({what})')
                    return
            try:
                ch = [x for x in ds.subset_channel('ch', b'b').channel_descriptors['ch']]
                parts = ds.split_obs('cond')
                rows = sorted(int(x) for p_ in parts for x in p_.obs_descriptors['row'])
            except Exception as e:
                ctx.violation('dataset_twin.raises', f'split_obs:bytes-label:raises:{type(e).__name__}', f'split/subset by bytes labels raised {type(e).__name__}: {e} ({what})')
                return
            if len(ch) != 1 or rows != list(range(6)) or len(parts) != 3:
                ctx.violation('dataset_twin.content', 'split_obs:content:obs:bytes-label',
                              f'subset_channel(ch, b"b") kept {ch}; split_obs(cond) gave {len(parts)} parts holding rows {rows} ({what})')
                return
            ctx.probe('bytes_label_cells')
    ctx.nontrivial = True
    ctx.behaviour('bytes_labels')


def _mixed_labels(plan, ctx):
    """a hand-kept descriptor list of mixed label types (run numbers and names), carried along by selections, splits and
    sorting: every retained row keeps its own value, type included (1 stays 1, not '1')"""
    import numpy as np
    from rsatoolbox.data import Dataset, TemporalDataset
    mixed = [1, 2, 'loc', 3, 'rest', 2]
    cond = [2, 0, 1, 2, 0, 1]
    ctx.tick('op', op='mixed_labels')
    for temporal in (False, True):
        m = np.arange(6 * 2 * (3 if temporal else 1), dtype=float).reshape((6, 2, 3) if temporal else (6, 2)) + 0.5
        od = {'cond': list(cond), 'run': list(mixed), 'row': list(range(6))}
        ds = (TemporalDataset(m, obs_descriptors=od, channel_descriptors={'ch': ['a', 'b']}, time_descriptors={'time': [0.0, 1.0, 2.0]})
              if temporal else Dataset(m, obs_descriptors=od, channel_descriptors={'ch': ['a', 'b']}))
        what = 'TemporalDataset' if temporal else 'Dataset'
        steps = [('subset_obs(cond, [0, 2])', lambda d: [d.subset_obs('cond', [0, 2])]),
                 ('split_obs(cond)', lambda d: d.split_obs('cond')),
                 ('subset_channel(ch, a)', lambda d: [d.subset_channel('ch', 'a')])]
        if not temporal:
            steps.append(('copy + sort_by(cond)', lambda d: [_sorted(d)]))
        for name, fn in steps:
            try:
                parts = fn(ds)
            except Exception as e:
                ctx.violation('dataset_twin.raises', f'mixed-labels:raises:{type(e).__name__}', f'{name} on a {what} with a mixed-type descriptor list raised {type(e).__name__}: {e}')
                return
            for part in parts:
                rows = [int(x) for x in part.obs_descriptors['row']]
                got = list(part.obs_descriptors['run'])
                exp = [mixed[r] for r in rows]
                if len(got) != len(exp) or any(type(a) is not type(b) and not (isinstance(a, (int, np.integer)) and isinstance(b, int)) or a != b
                                               for a, b in zip(got, exp)):
                    ctx.violation('dataset_twin.descriptors', 'mixed-labels:descriptors',
                                  f'{name} on a {what}: rows {rows} carry run labels {got!r}; they had {exp!r}')
                    return
            ctx.probe('mixed_label_cells')
    ctx.nontrivial = True
    ctx.behaviour('mixed_labels')


def _sorted(d):
    c = d.copy()
    c.sort_by('cond')
    return c


def execute(plan, ctx, prop=PROPERTY):
    import rsatoolbox  # noqa
    if plan.get('mode') == 'bytes_labels':
        return _bytes_labels(plan, ctx)
    if plan.get('mode') == 'mixed_labels':
        return _mixed_labels(plan, ctx)
    ctx.components.update(['real:rsatoolbox.data.dataset', 'real:rsatoolbox.data.ops', 'real:rsatoolbox.data.computations',
                           'real:rsatoolbox.util.descriptor_utils', 'real:pandas (DataFrame round trip)'])
    pool = Pool(ctx, prop)
    ops = DataOps(pool, plan['family'])
    for o in plan['ops']:
        ops.run(o)
