"""C16 -- saving and loading returns an equal object for every type and file format.

A simulated directory with the model  path -> (twin of the last object whose save() returned normally, file type).
Histories of save / load / overwrite over path, open-handle, dirty-handle and BytesIO targets, with injected write faults
and crash snapshots (sim/fsseam.py); objects are whatever a preceding history of C10/C11 operations has produced, plus
Results of evaluation runs (with every model class)."""
from __future__ import annotations
import io
import os
import random

import numpy as np

from sim.kernel import HarnessError, H
from sim.pool import Pool
from sim.ops_rdms import RdmsOps, gen_family, gen_op
from sim.ops_data import DataOps, gen_data_family
from sim.rngseam import RngSeam
from sim.fsseam import FsSeam
from sim.gen import norm
from checks import c10, c11

PROPERTY = 'C16'
RULE = ('seeded histories: 0-6 structural C10/C11 operations on identity-encoded RDMs / Dataset / TemporalDataset roots (plus '
        'decorations: unicode strings, NaN/inf values, matrix-valued descriptors, absent measure) or an evaluation Result with '
        'fixed/weighted/select/interpolate models; then 2-8 file operations: save to {fresh path, existing path, open handle, '
        'previously written handle, BytesIO} x {hdf5, pkl} x overwrite on/off, with injected write faults (ENOSPC after n bytes, '
        'EIO on k-th write) and crash snapshots right after save() returns; handles re-opened in append/update mode; save - edit '
        'in place - save again; the loaded object saved again (second generation); two saves in flight at once (two threads '
        'switched at the open/write calls of the file seam by a seeded scheduler, one running at a time); cycle-collector runs at '
        'named instants; load by path, handle or from the crash snapshot. '
        'Non-trivial = at least one file-system call; distinct = distinct (object kind, producer, target, file type, overwrite, '
        'fault, load route) signatures, counted per file operation (several per run).')
ASSUMPTIONS = ['the real file system of the sandbox holds the simulated directory; crash snapshot = bytes visible through a second '
               'descriptor at the instant save() returns (what a kill -9 of the process would leave)',
               'after a *reported* write failure the file content is not judged (the property does not speak about torn files)',
               'C16 equality per DESIGN.md Appendix E (ints and integer-valued floats identified; NaN equals NaN)']
BUDGET = {'quick': {'runs': 1800, 'cap_s': 60, 'wall_s': 110, 'chunk': 25},
          'thorough': {'runs': 60000, 'cap_s': 120, 'wall_s': 1500, 'chunk': 100}}

TARGETS = [('path', 4), ('existing', 4), ('handle', 2), ('dirty_handle', 2), ('bytesio', 1), ('pathobj', 1.5), ('existing_pathobj', 1.5),
           ('append_handle', 1.5)]


def gen_plan(rng, tier, index):
    kind = rng.wpick([('rdms', 4), ('data', 3), ('result', 2)])
    plan = {'kind': kind, 'decorate': rng.subset(['unicode', 'naninf', 'matrix', 'nomeasure', 'floatdesc', 'emptystr', 'ragged', 'emptyarr', 'bigendian', 'nonestr', 'blanks', 'longdouble'], 0.0, 0.8),
            'dec_seed': rng.randrange(10 ** 6), 'big': rng.chance(0.03)}
    if kind == 'rdms':
        plan['family'] = gen_family(rng, n_cond=(2, 14) if rng.chance(0.4) else (2, 8), n_rdm=(1, 6), mixed_ok=False)
        plan['pre_ops'] = c10.gen_ops(rng, rng.randint(0, 6), weights=[w for w in c10.WEIGHTS if w[0] not in ('to_df', 'size_recovery', 'array_write')])
    elif kind == 'data':
        plan['family'] = gen_data_family(rng)
        plan['pre_ops'] = c11.gen_ops(rng, rng.randint(0, 5), weights=[w for w in c11.WEIGHTS if w[0] not in ('array_write_ds', 'average_by', 'measurements_tensor', 'bin_time')])
    else:
        plan['family'] = gen_family(rng, n_roots=(1, 1), n_cond=(4, 7), n_rdm=(1, 5) if rng.chance(0.3) else (3, 5), mixed_ok=False)
        plan['pre_ops'] = []
        plan['result'] = {'routine': rng.pick(['eval_fixed', 'eval_bootstrap_rdm', 'eval_bootstrap', 'crossval', 'bootstrap_crossval', 'eval_dual_bootstrap', 'eval_bootstrap_pattern']),
                          'models': [rng.pick(['fixed', 'weighted', 'select', 'interpolate']) for _ in range(rng.randint(1, 12 if rng.chance(0.06) else 3))],
                          'method': rng.pick(['cosine', 'corr', 'spearman']), 'N': rng.randint(3, 6),
                          'fixed_nb': rng.pick([1, 1, 3]),      # a fixed model built from one RDM or from a stack (its mean predicts)
                          'frac_dof': rng.chance(0.25)}         # degrees of freedom need not be whole (a Welch-type correction)
    fops = []
    for _ in range(rng.randint(2, 8)):
        if rng.chance(0.6) or not fops:
            fault = None
            if rng.chance(0.2):
                fault = rng.pick([['enospc_after', rng.pick([0, 10, 100, 600, 3000])], ['eio_on_write', rng.randint(1, 6)]])
            fops.append({'op': 'save', 't': rng.randrange(1000), 'target': rng.wpick(TARGETS), 'ft': rng.pick(['hdf5', 'pkl']), 'fd': rng.chance(0.3),
                         'ext': rng.pick(['match'] * 5 + ['other', 'none', 'hdf5']), 'overwrite': rng.chance(0.5), 'fault': fault, 'crash': rng.chance(0.5), 'p': rng.randrange(1000)})
        elif rng.chance(0.25):
            fops.append({'op': 'mutate', 't': rng.randrange(1000), 'seed': rng.randrange(10 ** 6)})
        elif rng.chance(0.12):
            fops.append({'op': 'gc'})
        elif rng.chance(0.15):
            fops.append({'op': 'edit_resave', 't': rng.randrange(1000), 'p': rng.randrange(1000), 'seed': rng.randrange(10 ** 5),
                         'ft': rng.pick(['hdf5', 'hdf5', 'pkl'])})
        elif rng.chance(0.04):
            # a long session: many saves and loads under a tight budget of file descriptors (every save and load gives back
            # what it opened)
            fops.append({'op': 'fd_storm', 't': rng.randrange(1000), 'n': rng.pick([60, 90, 130]), 'ft': rng.pick(['pkl', 'pkl', 'hdf5'])})
        elif rng.chance(0.1):
            # two saves in flight at once (two worker threads of one analysis, each storing its own result under its own name)
            fops.append({'op': 'concurrent_saves', 't': rng.randrange(1000), 'seed': rng.randrange(10 ** 6)})
        elif rng.chance(0.25):
            # the object read from a file is itself saved again (an analysis that loads, and stores under another name)
            fops.append({'op': 'load_resave', 'p': rng.randrange(1000), 'ft': rng.pick(['hdf5', 'hdf5', 'pkl'])})
        else:
            fops.append({'op': 'load', 'p': rng.randrange(1000), 'via': rng.pick(['path', 'handle', 'path'])})
    plan['ops'] = fops
    return plan


def directed_plans(tier):
    fam = c10.directed_plans(tier)[0]['family']
    plans = []
    big = {'roots': [{'rdm_uids': [4, 9], 'cond_uids': list(range(1, 14)), 'measure': 'euclidean', 'descriptors': {'session': 's1'},
                      'rdm_desc': {'grp': {'values': ['b', 'a'], 'container': 'list'}, 'extra': {'values': ['x4', 'x9'], 'container': 'array'}},
                      'pat_desc': {'grp': {'values': list(range(13)), 'container': 'array'}}, 'nan_cells': []}]}
    plans_big = [{'kind': 'rdms', 'family': big, 'pre_ops': [], 'decorate': ['ragged'], 'dec_seed': 1,
                  'ops': [{'op': 'save', 't': 1, 'target': 'path', 'ft': ft, 'overwrite': False, 'fault': None, 'crash': False, 'p': 0},
                          {'op': 'load', 'p': 0, 'via': 'path'}]} for ft in ('hdf5', 'pkl')]
    for ft in ('hdf5', 'pkl'):
        for target in ('path', 'handle', 'bytesio'):
            plans.append({'kind': 'rdms', 'family': fam, 'pre_ops': [], 'decorate': ['unicode', 'matrix', 'nomeasure'], 'dec_seed': 1,
                          'ops': [{'op': 'save', 't': 0, 'target': target, 'ft': ft, 'overwrite': False, 'fault': None, 'crash': True, 'p': 0},
                                  {'op': 'load', 'p': 0, 'via': 'path'}]})
        for ow in (False, True):
            plans.append({'kind': 'rdms', 'family': fam, 'pre_ops': [], 'decorate': [], 'dec_seed': 1,
                          'ops': [{'op': 'save', 't': 0, 'target': 'path', 'ft': ft, 'overwrite': False, 'fault': None, 'crash': False, 'p': 0},
                                  {'op': 'save', 't': 1, 'target': 'existing', 'ft': ft, 'overwrite': ow, 'fault': None, 'crash': True, 'p': 0},
                                  {'op': 'load', 'p': 0, 'via': 'path'}]})
            plans.append({'kind': 'rdms', 'family': fam, 'pre_ops': [], 'decorate': [], 'dec_seed': 1,
                          'ops': [{'op': 'save', 't': 0, 'target': 'handle', 'ft': ft, 'overwrite': False, 'fault': None, 'crash': False, 'p': 0},
                                  {'op': 'save', 't': 1, 'target': 'dirty_handle', 'ft': ft, 'overwrite': True, 'fault': None, 'crash': False, 'p': 0},
                                  {'op': 'load', 'p': 0, 'via': 'handle'}, {'op': 'load', 'p': 0, 'via': 'path'}]})
    for n_models in (2, 11, 12):
        plans.append({'kind': 'result', 'family': fam, 'pre_ops': [], 'decorate': [], 'dec_seed': 1,
                      'result': {'routine': 'eval_fixed', 'models': (['fixed', 'weighted', 'select', 'interpolate'] * 3)[:n_models], 'method': 'cosine', 'N': 3},
                      'ops': [{'op': 'save', 't': 0, 'target': 'path', 'ft': 'hdf5', 'overwrite': False, 'fault': None, 'crash': False, 'p': 0},
                              {'op': 'load', 'p': 0, 'via': 'path'}]})
    # one object with a matrix above 16 MiB (sizes at which readers / writers go block-wise), once per file type and route
    plans_huge = [{'kind': 'rdms', 'family': fam, 'pre_ops': [], 'decorate': [], 'dec_seed': 1, 'huge': True,
                   'ops': [{'op': 'save', 't': -1, 'target': target, 'ft': ft, 'overwrite': False, 'fault': None, 'crash': False, 'p': 0},
                           {'op': 'load', 'p': 0, 'via': 'path' if target == 'path' else 'handle'}]}
                  for ft, target in (('hdf5', 'path'), ('hdf5', 'handle'), ('pkl', 'path'))]
    return plans + plans_big + plans_huge


def summarize(plan):
    return {'kind': plan['kind'], 'decorate': plan['decorate'], 'pre_ops': [o['op'] for o in plan['pre_ops']],
            'result': plan.get('result'), 'ops': plan['ops']}


def shrink_candidates(plan):
    if plan['pre_ops']:
        for i in range(len(plan['pre_ops'])):
            yield {**plan, 'pre_ops': plan['pre_ops'][:i] + plan['pre_ops'][i + 1:]}
    for d in plan['decorate']:
        yield {**plan, 'decorate': [x for x in plan['decorate'] if x != d]}
    for i, o in enumerate(plan['ops']):
        if o['op'] == 'save' and (o['fault'] or o['crash']):
            ops = list(plan['ops'])
            ops[i] = {**o, 'fault': None, 'crash': False}
            yield {**plan, 'ops': ops}
    if plan.get('result') and len(plan['result']['models']) > 1:
        yield {**plan, 'result': {**plan['result'], 'models': plan['result']['models'][:-1]}}


# ------------------------------------------------------------------------------------------- C16 equality
def nv(v):
    if isinstance(v, np.ndarray) and v.size > 4096 and v.dtype.kind in 'fiub':
        # large numeric arrays: shape and a digest of the values as float64 (layout, byte order and integer width aside)
        import hashlib
        return {'__array__': [list(v.shape), hashlib.sha1(np.ascontiguousarray(v, dtype=np.float64).tobytes()).hexdigest()]}
    if isinstance(v, np.ndarray):
        return [nv(x) for x in v.tolist()] if v.ndim else nv(v.item())
    if isinstance(v, np.generic):
        v = v.item()
    if isinstance(v, bytes):
        return {'__bytes__': v.decode(errors='replace')}      # raw bytes are not the string they encode
    if isinstance(v, (list, tuple)):
        return [nv(x) for x in v]
    if isinstance(v, dict):
        return {str(k): nv(x) for k, x in v.items()}
    if isinstance(v, float):
        if v != v:
            return 'NaN'
        if v in (float('inf'), float('-inf')):
            return repr(v)
        if v == int(v):
            return int(v)
    if isinstance(v, bool):
        # a truth value is not the number 1: a mask read back as 0/1 numbers indexes by position instead of selecting
        return '__true__' if v else '__false__'
    return v


def _arr(a):
    a = np.asarray(a)
    return a


def rec_rdms(o):
    return {'class': type(o).__name__, 'arr:dissimilarities': np.array(o.dissimilarities, copy=True),
            'measure': nv(o.dissimilarity_measure), 'descriptors': nv(o.descriptors),
            'rdm_descriptors': nv(o.rdm_descriptors), 'pattern_descriptors': nv(o.pattern_descriptors)}


def rec_dataset(o):
    r = {'class': type(o).__name__, 'arr:measurements': np.array(o.measurements, copy=True), 'descriptors': nv(o.descriptors),
         'obs_descriptors': nv(o.obs_descriptors), 'channel_descriptors': nv(o.channel_descriptors)}
    if hasattr(o, 'time_descriptors'):
        r['time_descriptors'] = nv(o.time_descriptors)
    return r


def rec_model(m):
    r = {'class': type(m).__name__, 'name': nv(m.name)}
    if getattr(m, 'rdm_obj', None) is not None:
        for k, v in rec_rdms(m.rdm_obj).items():
            r['rdm_obj.' + k if not k.startswith('arr:') else 'arr:rdm_obj.' + k[4:]] = v
    th = 0 if type(m).__name__ == 'ModelSelect' else None
    try:
        r['arr:predict'] = np.array(m.predict(th), dtype=float)
        r['arr:predict_rdm'] = np.array(m.predict_rdm(th).dissimilarities, dtype=float)
        if type(m).__name__ in ('ModelWeighted', 'ModelInterpolate'):
            r['arr:predict_ones'] = np.array(m.predict(np.ones(m.n_param)), dtype=float)
    except Exception as e:
        r['predict'] = 'raised ' + type(e).__name__
    return r


def rec_result(res):
    r = {'class': type(res).__name__, 'arr:evaluations': np.array(res.evaluations, dtype=float),
         'arr:noise_ceiling': np.array(res.noise_ceiling, dtype=float), 'dof': nv(res.dof), 'n_rdm': nv(res.n_rdm),
         'n_pattern': nv(res.n_pattern), 'method': nv(res.method), 'cv_method': nv(res.cv_method), 'n_model': len(res.models)}
    r['arr:variances'] = None if res.variances is None else np.array(res.variances, dtype=float)
    for i, m in enumerate(res.models):
        for k, v in rec_model(m).items():
            key = f'model{i}.' + (k[4:] if k.startswith('arr:') else k)
            r[('arr:' + key) if k.startswith('arr:') else key] = v
    import warnings
    for tt in ('t-test', 'bootstrap', 'ranksum'):
        for name in ('test_all', 'test_pairwise', 'test_zero', 'test_noise'):
            tag = name if tt == 't-test' else f'{name}[{tt}]'
            try:
                with warnings.catch_warnings():
                    warnings.simplefilter('ignore')
                    out = getattr(res, name)(test_type=tt)
                outs = out if isinstance(out, tuple) else (out,)
                for j, x in enumerate(outs):
                    r[f'arr:{tag}[{j}]'] = np.array(x, dtype=float)
            except Exception as e:
                r[tag] = 'raised ' + type(e).__name__
    # the derived quantities a report or plot reads from a Result
    for tag, call in (('get_means', lambda: res.get_means()), ('get_sem', lambda: res.get_sem()),
                      ('get_model_var', lambda: res.get_model_var()), ('get_noise_ceil', lambda: res.get_noise_ceil()),
                      ('get_ci90', lambda: res.get_ci(0.9)), ('get_ci90[bootstrap]', lambda: res.get_ci(0.9, test_type='bootstrap')),
                      ('get_errorbars', lambda: res.get_errorbars()), ('get_errorbars[ci]', lambda: res.get_errorbars('ci'))):
        try:
            with warnings.catch_warnings():
                warnings.simplefilter('ignore')
                out = call()
            if out is None:
                r[tag] = None
            else:
                outs = out if isinstance(out, (tuple, list)) else (out,)
                for j, x in enumerate(outs):
                    r[f'arr:{tag}[{j}]'] = None if x is None else np.array(x, dtype=float)
        except Exception as e:
            r[tag] = 'raised ' + type(e).__name__
    try:
        with warnings.catch_warnings():
            warnings.simplefilter('ignore')
            r['summary'] = res.summary()
    except Exception as e:
        r['summary'] = 'raised ' + type(e).__name__
    return r


def rec_any(o):
    from rsatoolbox.rdm import RDMs
    from rsatoolbox.data.base import DatasetBase
    if isinstance(o, RDMs):
        return rec_rdms(o)
    if isinstance(o, DatasetBase):
        return rec_dataset(o)
    return rec_result(o)


def typerec(o):
    """container type of every descriptor value and dtype of the main array: what "the in-memory object" is made of beyond
    its values (a boolean mask `d == x` works on an ndarray and not on the list with the same entries)"""
    def tn(v):
        if isinstance(v, np.ndarray):
            return f'ndarray:{v.dtype.str}:{v.shape}'
        if isinstance(v, (list, tuple)):
            return f'{type(v).__name__}:{len(v)}'
        return type(v).__name__
    out = {}
    for name in ('descriptors', 'rdm_descriptors', 'pattern_descriptors', 'obs_descriptors', 'channel_descriptors', 'time_descriptors'):
        d = getattr(o, name, None)
        if isinstance(d, dict):
            for k, v in d.items():
                out[f'{name}[{k!r}]'] = tn(v)
    for name in ('dissimilarities', 'measurements', 'evaluations'):
        if hasattr(o, name):
            out[name] = tn(getattr(o, name))
    return out


def diff_rec(a, b):
    """list of (field, message) differences between two records"""
    out = []
    for k in sorted(set(a) | set(b)):
        if k not in a or k not in b:
            out.append((k, f'field {k} present in only one of the two'))
            continue
        x, y = a[k], b[k]
        if k.startswith('arr:'):
            if x is None or y is None:
                if not (x is None and y is None):
                    out.append((k, f'{k}: {None if x is None else "array"} vs {None if y is None else "array"}'))
                continue
            x, y = np.asarray(x), np.asarray(y)
            if x.shape != y.shape:
                out.append((k, f'{k}: shape {x.shape} vs {y.shape}'))
            elif x.dtype.kind in 'fiub' and y.dtype.kind in 'fiub':
                if not np.array_equal(x.astype(float), y.astype(float), equal_nan=True):
                    out.append((k, f'{k}: values differ (e.g. {x.ravel()[:4].tolist()} vs {y.ravel()[:4].tolist()})'))
            elif nv(x) != nv(y):
                out.append((k, f'{k}: values differ'))
        elif isinstance(x, dict) and isinstance(y, dict):
            if set(x) != set(y):
                out.append((k, f'{k}: keys {sorted(x)} vs {sorted(y)}'))
            else:
                for kk in sorted(x):
                    if x[kk] != y[kk]:
                        out.append((k, f'{k}[{kk!r}]: {str(x[kk])[:80]} vs {str(y[kk])[:80]}'))
        elif x != y:
            out.append((k, f'{k}: {str(x)[:80]} vs {str(y)[:80]}'))
    return out


# ------------------------------------------------------------------------------------------- objects
def _decorate(obj, plan, kind):
    """a copy of the object with extra descriptor value types / special values"""
    r = random.Random(plan['dec_seed'])
    dec = plan['decorate']
    o = obj.copy()
    arr = o.dissimilarities if kind == 'rdms' else o.measurements
    per_item = o.rdm_descriptors if kind == 'rdms' else o.obs_descriptors
    n_item = o.n_rdm if kind == 'rdms' else o.n_obs
    per_col = o.pattern_descriptors if kind == 'rdms' else o.channel_descriptors
    n_col = o.n_cond if kind == 'rdms' else o.n_channel
    if 'unicode' in dec:
        per_item['label'] = ['ü%dβ' % i for i in range(n_item)]
        o.descriptors['who'] = 'José 中'
        o.descriptors['unit'] = 'Zoe\u0308 k\u2126 \u212b'      # a decomposed accent, OHM SIGN, ANGSTROM SIGN: text is kept code point by code point
        per_col['glyph'] = np.array(['é%d' % i for i in range(n_col)])
    if 'naninf' in dec and arr.size and arr.dtype.kind == 'f':
        flat = arr.reshape(-1)
        flat[r.randrange(flat.size)] = np.nan
        flat[r.randrange(flat.size)] = np.inf
        flat[r.randrange(flat.size)] = -np.inf
    if 'bigendian' in dec:
        # arrays as read from big-endian binary formats: same values, non-native byte order
        if kind == 'rdms':
            o.dissimilarities = o.dissimilarities.astype(o.dissimilarities.dtype.newbyteorder('>'))
        else:
            o.measurements = o.measurements.astype(o.measurements.dtype.newbyteorder('>'))
        o.descriptors['be_counts'] = np.array([1, 2, 515], dtype='>i2')
        per_col['be_pos'] = np.array([0.66 + i for i in range(n_col)], dtype='>f4')
    if 'matrix' in dec:
        o.descriptors['noise'] = np.array([[2.0, 0.5], [0.5, 1.0]])
        o.descriptors['vec'] = np.array([1.5, -2.0, 3.25])
        o.descriptors['noise1'] = np.array([[2.5]])          # the 1 x 1 precision of a single channel is still a matrix
        o.descriptors['one'] = np.array([4])
    if 'nomeasure' in dec and kind == 'rdms':
        o.dissimilarity_measure = None
    if 'floatdesc' in dec:
        per_item['weight'] = [0.5 + i for i in range(n_item)]
        per_col['pos'] = np.array([i * 1.25 for i in range(n_col)])
        o.descriptors['count'] = 7
    if 'emptystr' in dec:
        o.descriptors['note'] = ''
    if plan.get('big'):
        # sizes at which writers switch strategy: a matrix above 1 MiB in Fortran order and as a strided view, a long text
        o.descriptors['bigmat_f'] = np.asfortranarray(np.arange(400 * 420, dtype=float).reshape(400, 420) * 0.5)
        o.descriptors['bigmat_t'] = np.arange(380 * 410, dtype=float).reshape(380, 410).T
        o.descriptors['log'] = ('schritt ü %d; ' % (plan['dec_seed'] % 97)) * 5200          # > 64 KiB of text
    if plan.get('huge'):
        o.descriptors['hugemat'] = np.arange(2100 * 1001, dtype=float).reshape(2100, 1001) * 0.25      # 16.8 MB, 2100 rows
    if 'blanks' in dec:
        # white space is part of a label: 'face ' and 'face' are different conditions
        ws = ['face', 'face ', ' face', 'face\t', 'fa ce', 'face\u3000', 'face\n']
        per_item['wslab'] = [ws[i % len(ws)] for i in range(n_item)]
        per_col['wscol'] = np.array([ws[(i + 1) % len(ws)] for i in range(n_col)])
        o.descriptors['wsnote'] = ' padded '
    if 'nonestr' in dec:
        # strings that spell a special value are still strings
        o.descriptors['noise_norm'] = 'None'
        o.descriptors['flagstr'] = 'True'
        o.descriptors['numstr'] = '1.5'
        o.descriptors['nanstr'] = 'nan'
        per_item['lab2'] = ['None' if i % 2 else 'nan' for i in range(n_item)]
        if kind == 'rdms' and 'nomeasure' not in dec:
            o.dissimilarity_measure = 'None'
    if 'emptyarr' in dec:
        o.descriptors['excluded'] = np.array([])              # a zero-length array is a value, not an absent one
        o.descriptors['excluded_idx'] = np.array([], dtype=int)
        o.descriptors['scalar0'] = 0                          # ... and so are zero, False and an all-zero vector
        o.descriptors['flag'] = False
        o.descriptors['zeros'] = np.zeros(3)
        # truth values stay truth values (a mask that comes back as 0/1 numbers selects by position, not by truth)
        per_col['keep'] = np.array([i % 3 != 1 for i in range(n_col)], dtype=bool)
        o.descriptors['boolmat'] = np.array([[True, False], [False, False]])
    if 'longdouble' in dec:
        # unsigned 64-bit identifiers above 2**63 keep their value
        per_col['u64'] = np.array([2 ** 63 + 5 + 3 * i for i in range(n_col)], dtype=np.uint64)
        o.descriptors['u64mat'] = np.array([[2 ** 64 - 1, 2 ** 63], [7, 2 ** 63 + 11]], dtype=np.uint64)
    if 'longdouble' in dec and np.finfo(np.longdouble).nmant > 52:
        # extended-precision arrays keep their extra bits (where the platform has them)
        per_col['ld'] = np.array([np.longdouble(1) + np.longdouble(2) ** -60 * (i + 1) for i in range(n_col)], dtype=np.longdouble)
        o.descriptors['ldmat'] = np.array([[np.longdouble(1) / 3, np.longdouble(2) ** -70], [np.longdouble(3), np.longdouble(1) + np.longdouble(2) ** -61]], dtype=np.longdouble)
    if 'ragged' in dec:
        # per-item arrays of different lengths: cannot form one numpy array, stored element by element
        per_col['ragged'] = [np.arange(1 + (i * 7) % 3) * 1.5 + i for i in range(n_col)]
        per_item['ragged'] = [np.arange(1 + i % 2) + 10.0 * i for i in range(n_item)]
        if kind == 'data' and hasattr(o, 'time_descriptors'):
            o.time_descriptors['ragged_t'] = [np.arange(1 + (k * 5) % 3) + 0.25 * k for k in range(o.n_time)]
    return o


def _make_result(plan, ctx, data):
    res = _make_result_raw(plan, ctx, data)
    if plan['result'].get('frac_dof'):
        res.dof = float(res.dof) + 0.6
    return res


def _make_result_raw(plan, ctx, data):
    from rsatoolbox.model import ModelFixed, ModelWeighted, ModelSelect, ModelInterpolate
    from rsatoolbox.model.fitter import fit_regress
    from rsatoolbox.rdm import RDMs
    import rsatoolbox.inference as inf
    from sim import gen
    spec = plan['family']['roots'][0]
    rp = plan['result']
    models = []
    for i, kind in enumerate(rp['models']):
        nb = {'fixed': rp.get('fixed_nb', 1), 'weighted': 2, 'select': 3, 'interpolate': 3}[kind]
        basis = gen.build_model_rdms(spec, nb, salt='m%d' % i)
        cls = {'fixed': ModelFixed, 'weighted': ModelWeighted, 'select': ModelSelect, 'interpolate': ModelInterpolate}[kind]
        m = cls('model %d µ' % i if i == 1 else 'model_%d' % i, basis)
        if kind == 'weighted':
            m.default_fitter = fit_regress
        models.append(m)
    theta = [None if k == 'fixed' else (1 if k == 'select' else np.ones({'weighted': 2, 'interpolate': 3}[k])) for k in rp['models']]
    method = rp['method'] if all(k in ('fixed', 'select', 'interpolate') for k in rp['models']) else 'cosine'
    routine = rp['routine']
    if routine == 'eval_fixed':
        return inf.eval_fixed(models, data, theta=theta, method=method)
    if routine == 'eval_bootstrap_rdm':
        return inf.eval_bootstrap_rdm(models, data, theta=theta, method=method, N=rp['N'])
    if routine == 'eval_bootstrap':
        return inf.eval_bootstrap(models, data, theta=theta, method=method, N=rp['N'])
    if routine == 'eval_bootstrap_pattern':
        return inf.eval_bootstrap_pattern(models, data, theta=theta, method=method, N=rp['N'])
    if routine == 'bootstrap_crossval':
        return inf.bootstrap_crossval(models, data, method=method, k_pattern=1, k_rdm=2, N=rp['N'], n_cv=2)
    if routine == 'eval_dual_bootstrap':
        return inf.eval_dual_bootstrap(models, data, method=method, k_pattern=1, k_rdm=1, N=max(rp['N'], 4))
    tr, te, ce = inf.sets_k_fold(data, k_rdm=2, k_pattern=1, random=False)
    return inf.crossval(models, data, tr, te, ceil_set=ce, method=method)


# ------------------------------------------------------------------------------------------- execution
class Files:
    def __init__(self):
        self.entries = []      # dict(path, ft, kind, twin, handle, crash)

    def of(self, ft=None, with_handle=False):
        return [e for e in self.entries if (ft is None or e['ft'] == ft) and (not with_handle or e.get('handle') is not None)]


def _loader(kind):
    from rsatoolbox.rdm import load_rdm
    from rsatoolbox.data.dataset import load_dataset
    from rsatoolbox.inference.result import load_results
    return {'rdms': load_rdm, 'data': load_dataset, 'result': load_results}[kind]


def execute(plan, ctx):
    import rsatoolbox  # noqa
    ctx.components.update(['real:rsatoolbox.io.hdf5', 'real:rsatoolbox.io.pkl', 'real:rsatoolbox.util.file_io', 'real:h5py', 'real:pickle',
                           'real:file system (per-run scratch directory)', 'stub:file objects when a write fault is scheduled',
                           'stub:rsatoolbox.io.pkl.open / rsatoolbox.io.hdf5.File (rebound to the seam)',
                           'stub:thread scheduling during concurrent saves (real threads, parked and released one at a time by a seeded scheduler)',
                           'stub:cycle garbage collector (disabled; runs only at plan-named instants)'])
    kind = plan['kind']
    pool = Pool(ctx, PROPERTY)
    seam = RngSeam(ctx, plan['serve_seed'], {'rate': 0, 'kinds': []})
    objs = []
    with seam:
        if kind == 'rdms':
            ops = RdmsOps(pool, plan['family'])
            for o in plan['pre_ops']:
                ops.run(o)
            objs = [s for s in pool.of_kind('rdms')]
        elif kind == 'data':
            ops = DataOps(pool, plan['family'])
            for o in plan['pre_ops']:
                ops.run(o)
            objs = [s for s in pool.of_kind('dataset', 'tdataset')]
        else:
            ops = RdmsOps(pool, plan['family'])
            data = pool.slots[0].obj
            try:
                res = _make_result(plan, ctx, data)
            except Exception as e:
                ctx.probe('result_construction_failed')
                return
            objs = [pool.add(res, 'result', None, plan['result']['routine'], [])]
    if (plan['decorate'] or plan.get('big') or plan.get('huge')) and kind in ('rdms', 'data') and objs:
        try:
            d = _decorate(objs[-1].obj, plan, kind)
        except Exception as e:
            raise HarnessError(f'decoration failed: {e!r}')
        objs.append(pool.add(d, objs[-1].kind, None, 'decorate', [objs[-1].sid]))
    if not objs:
        return
    files = Files()
    fs = FsSeam(ctx)
    with fs:
        for o in plan['ops']:
            if o['op'] == 'save':
                _do_save(ctx, pool, fs, files, objs, kind, o)
            elif o['op'] == 'mutate':
                _do_mutate(ctx, pool, objs, kind, o)
            elif o['op'] == 'edit_resave':
                # save, edit labels of the same object in place, save again to another file: each file holds the object as
                # it was when that file was written
                so = {'op': 'save', 't': o['t'], 'target': 'path', 'ft': o['ft'], 'fd': False, 'ext': 'match', 'overwrite': False,
                      'fault': None, 'crash': False, 'p': o['p']}
                _do_save(ctx, pool, fs, files, objs, kind, so)
                _do_mutate(ctx, pool, objs, kind, {'t': o['t'], 'seed': 3 * o['seed']})
                _do_save(ctx, pool, fs, files, objs, kind, so)
                ctx.probe('edit_resave')
            elif o['op'] == 'load_resave':
                _do_load_resave(ctx, pool, fs, files, kind, o)
            elif o['op'] == 'concurrent_saves':
                _do_concurrent_saves(ctx, pool, fs, files, objs, kind, o)
            elif o['op'] == 'fd_storm':
                _do_fd_storm(ctx, pool, fs, files, objs, kind, o)
            elif o['op'] == 'gc':
                import gc
                ctx.tick('gc')
                gc.collect()                   # the cycle collector runs only at the instants the plan names
                ctx.probe('gc_steps')
            else:
                _do_load(ctx, pool, fs, files, kind, o)
        # final sweep: every acknowledged file still loads to its twin
        for e in files.entries:
            if e['twin'] is not None and e.get('path') and e.get('handle') is None:
                _load_and_compare(ctx, pool, fs, e, kind, e['path'], 'final')


def _compare(ctx, e, loaded, route, sig_extra=''):
    got = rec_any(loaded)
    diffs = diff_rec(e['twin'], got)
    if diffs:
        fields = sorted({d[0].split('.')[-1].replace('arr:', '') for d in diffs})
        ctx.violation('fs_model.roundtrip', f'load:{e["kind"]}:{e["ft"]}:{route}:{"+".join(fields)[:60]}{sig_extra}',
                      f'{e["ft"]} file {os.path.basename(e["path"] or "<memory>")} ({e["kind"]}, saved via {e["via"]}, overwrite={e["overwrite"]}), '
                      f'loaded via {route}: {diffs[0][1]}' + (f' (+{len(diffs) - 1} more)' if len(diffs) > 1 else ''))
        return False
    # the library's own == must agree whenever it yields a bool and no NaN is involved
    try:
        src = e['obj']
        arrs = [v for k, v in got.items() if k.startswith('arr:') and v is not None]
        if e['kind'] in ('rdms', 'data') and not any(np.isnan(np.asarray(a, dtype=float)).any() for a in arrs):
            if rec_any(src) == e['twin'] or not diff_rec(rec_any(src), e['twin']):
                eq = (loaded == src)
                import pickle as _pickle
                # a missing (NaN) label makes the library's == false even for an exact replica of the object (a replica with
                # fresh float objects: deepcopy would keep the very same NaN object and == short-cuts on identity)
                self_eq = (_pickle.loads(_pickle.dumps(src)) == src)
                if isinstance(eq, (bool, np.bool_)) and not eq and isinstance(self_eq, (bool, np.bool_)) and self_eq:
                    ctx.violation('fs_model.eq', f'load:{e["kind"]}:{e["ft"]}:library-eq',
                                  f'loaded object is field-wise equal to the saved one but the library\'s == returns False')
                    return False
    except Exception:
        pass
    ctx.probe('loads_equal_to_twin')
    return True


def _load_and_compare(ctx, pool, fs, e, kind, source, route):
    load = _loader(kind)
    try:
        if isinstance(source, str):
            fs.tick('load', target=fs.rel(source), route=route)
            inferable = source.endswith('.pkl') if e['ft'] == 'pkl' else (source.endswith('.h5') or source.endswith('hdf5'))
            if inferable and len(fs.rel(source)) % 3:
                loaded = load(source)                            # file type inferred from the name
            else:
                loaded = load(source, file_type=e['ft'])        # explicit file type (the name may suggest otherwise)
                ctx.probe('load_explicit_type' + ('' if inferable else '_name_disagrees'))
        else:
            source.seek(0)
            fs.tick('load', target='<handle>', route=route)
            loaded = load(source, file_type=e['ft'])
    except Exception as ex:
        ctx.violation('fs_model.load_raises', f'load:{e["kind"]}:{e["ft"]}:{route}:raises:{type(ex).__name__}',
                      f'loading the {e["ft"]} file written by an acknowledged save ({e["kind"]}, via {e["via"]}, overwrite={e["overwrite"]}) '
                      f'through {route} raised {type(ex).__name__}: {str(ex)[:200]}')
        return
    _compare(ctx, e, loaded, route)
    ctx.behaviour('load', kind, e['ft'], e['via'], route)


def _do_mutate(ctx, pool, objs, kind, o):
    """a documented in-place operation on a live object between file operations: files written earlier must keep holding
    the object as it was when it was saved"""
    slot = objs[o['t'] % len(objs)]
    obj = slot.obj
    r = random.Random(o['seed'])
    try:
        if o['seed'] % 3 == 0 and kind in ('rdms', 'data'):
            # the user edits labels in place (same descriptor containers, other contents): a later save holds the new ones
            dd = obj.pattern_descriptors if kind == 'rdms' else obj.obs_descriptors
            for key in sorted(dd):
                v = dd[key]
                if key in ('uid', 'ouid', 'cuid', 'index') or len(v) == 0:
                    continue
                if isinstance(v, np.ndarray) and v.dtype.kind == 'U':
                    v[r.randrange(len(v))] = 'zq'[:max(1, v.dtype.itemsize // 4)]
                elif isinstance(v, list) and all(isinstance(x, str) for x in v):
                    v[r.randrange(len(v))] = 'zq9'
                elif isinstance(v, np.ndarray) and v.dtype.kind in 'if' and v.ndim == 1:
                    v[r.randrange(len(v))] = 77
            ctx.probe('labels_edited_in_place')
        elif kind == 'rdms':
            perm = list(range(obj.n_cond))
            r.shuffle(perm)
            obj.reorder(perm)
        elif kind == 'data':
            # sorting is only meaningful (and documented) for descriptors with one scalar label per observation
            keys = sorted(k for k, v in obj.obs_descriptors.items()
                          if all(isinstance(norm(x), (str, int, float)) for x in v))
            if not keys:
                return
            obj.sort_by(keys[r.randrange(len(keys))])
        else:
            return
    except Exception:
        ctx.probe('mutate_raised')       # (e.g. sorting by a ragged descriptor); the object may be half-way changed
    ctx.tick('op', op='mutate', slot=slot.sid)
    pool.sweep('mutate-between-file-ops', target=slot.sid, inplace=True)
    ctx.behaviour('mutate', kind)


def _do_load(ctx, pool, fs, files, kind, o):
    cands = [e for e in files.entries if e['twin'] is not None]
    if not cands:
        return
    e = cands[o['p'] % len(cands)]
    if e.get('handle') is not None and (o['via'] == 'handle' or e['path'] is None):
        h = e['handle']
        try:
            h.flush()
        except Exception:
            pass
        _load_and_compare(ctx, pool, fs, e, kind, h, 'handle')
    elif e['path'] is not None:
        if e.get('handle') is not None:
            try:
                e['handle'].flush()
            except Exception:
                pass
        if o['via'] == 'handle':
            with open(e['path'], 'rb') as h:
                _load_and_compare(ctx, pool, fs, e, kind, h, 'handle')
        else:
            _load_and_compare(ctx, pool, fs, e, kind, e['path'], 'path')
    if e.get('crash'):
        _load_and_compare(ctx, pool, fs, e, kind, e['crash'], 'crash-snapshot')


def _do_fd_storm(ctx, pool, fs, files, objs, kind, o):
    """resource fault: the process may hold only ~40 more file descriptors than it does now (RLIMIT_NOFILE lowered for the
    duration); n saves by path, each followed by a load, must all succeed -- a save or load that keeps a descriptor open
    runs into EMFILE after a few dozen files"""
    import errno
    import gc
    import resource
    slot = objs[o['t'] % len(objs)]
    ft = o['ft']
    for dname in ('rdm_descriptors', 'pattern_descriptors', 'obs_descriptors', 'channel_descriptors', 'time_descriptors'):
        for v in getattr(slot.obj, dname, {}).values():
            if v is None or any(x is None for x in v):
                ft = 'pkl'          # (None entries: not an HDF5 value type, see _do_save)
    twin = rec_any(slot.obj)
    load = _loader(kind)
    gc.collect()                     # (h5py File objects of earlier steps are released by the collector, as in a live session)
    soft, hard = resource.getrlimit(resource.RLIMIT_NOFILE)
    n_open = len(os.listdir('/proc/self/fd'))
    budget = n_open + 40
    if hard != resource.RLIM_INFINITY:
        budget = min(budget, hard)
    fs.tick('fd_budget', extra=40, n=o['n'], ft=ft)
    ctx.fault('fd_budget')
    path = None
    try:
        resource.setrlimit(resource.RLIMIT_NOFILE, (budget, hard))
        for i in range(o['n']):
            path = fs.new_path('pkl' if ft == 'pkl' else 'h5')
            try:
                slot.obj.save(path, file_type=ft)
                loaded = load(path, file_type=ft)
            except OSError as ex:
                if ex.errno in (errno.EMFILE, errno.ENFILE) or 'too many open files' in str(ex).lower():
                    ctx.violation('fs_model.fd_leak', f'save:{kind}:{ft}:descriptor-leak',
                                  f'after {i} save/load cycles ({ft}, by path) under a budget of 40 spare file descriptors the next '
                                  f'one failed with {type(ex).__name__}: {str(ex)[:120]} -- saves or loads keep descriptors open')
                    return
                raise
            if ft == 'hdf5' and i % 16 == 15:
                del loaded
                gc.collect()         # (the collector of a live session; h5py objects are released by it)
    finally:
        resource.setrlimit(resource.RLIMIT_NOFILE, (soft, hard))
        gc.collect()
    d = diff_rec(twin, rec_any(loaded))
    if d:
        ctx.violation('fs_model.roundtrip', f'load:{kind}:{ft}:after-many-saves', f'the object read back after {o["n"]} save/load cycles differs: {d[0][1]}')
        return
    ctx.probe('fd_storms')
    ctx.behaviour('save', kind, 'fd_storm', ft)


def _do_concurrent_saves(ctx, pool, fs, files, objs, kind, o):
    """two pickle saves by path, to two different names in one folder, run by two threads that are switched at the file
    seam's open / write calls by a seeded scheduler (exactly one thread runs at any time): each file reads back equal to the
    object that was saved under its name"""
    import random as _random
    import threading
    sa = objs[o['t'] % len(objs)]
    sb = objs[(o['t'] // 7 + 1) % len(objs)]
    r = _random.Random(o['seed'])
    fts = [r.choice(['pkl', 'pkl', 'hdf5']), r.choice(['pkl', 'pkl', 'hdf5'])]
    def _has_none(obj):
        for dname in ('rdm_descriptors', 'pattern_descriptors', 'obs_descriptors', 'channel_descriptors', 'time_descriptors'):
            for v in getattr(obj, dname, {}).values():
                if v is None or any(x is None for x in v):
                    return True
        return False
    # (None entries are not among the descriptor value types HDF5 takes, see _do_save: such objects go to pickle)
    fts = ['pkl' if _has_none(s_.obj) else f_ for s_, f_ in zip((sa, sb), fts)]
    pair = [(sa, fs.new_path('pkl' if fts[0] == 'pkl' else 'h5')), (sb, fs.new_path('pkl' if fts[1] == 'pkl' else 'h5'))]
    twins = [rec_any(s_.obj) for s_, _ in pair]
    st = {'turn': 0, 'done': [False, False], 'err': [None, None], 'switches': 0}
    cond = threading.Condition()
    ident = {}

    def yield_point(what):
        me = ident.get(threading.get_ident())
        if me is None:
            return
        other = 1 - me
        with cond:
            if not st['done'][other] and r.random() < 0.5:
                st['switches'] += 1
                ctx.tick('sched', switch_to=other, at=what)
                st['turn'] = other
                cond.notify_all()
                while st['turn'] != me:
                    cond.wait()

    def worker(me):
        ident[threading.get_ident()] = me
        with cond:
            while st['turn'] != me:
                cond.wait()
        try:
            pair[me][0].obj.save(pair[me][1], file_type=fts[me])
        except BaseException as ex:       # noqa
            ex.__traceback__ = None
            st['err'][me] = ex
        with cond:
            st['done'][me] = True
            st['turn'] = 1 - me
            cond.notify_all()

    for me in (0, 1):
        fs.tick('save', target=fs.rel(pair[me][1]), ft=fts[me], overwrite=False, fault=None, obj=pair[me][0].sid, concurrent=me)
    fs.on_io = yield_point
    threads = [threading.Thread(target=worker, args=(me,), daemon=True) for me in (0, 1)]
    try:
        for t_ in threads:
            t_.start()
        for t_ in threads:
            t_.join(60)
        if any(t_.is_alive() for t_ in threads):
            raise HarnessError('concurrent_saves: the two saving threads did not finish')
    finally:
        fs.on_io = None
    ctx.probe('concurrent_saves')
    ctx.probe('concurrent_save_switches', st['switches'])
    for me in (0, 1):
        if st['err'][me] is not None:
            ex = st['err'][me]
            ctx.violation('fs_model.save_raises', f'save:{kind}:{fts[me]}:concurrent:raises:{type(ex).__name__}',
                          f'one of two saves in flight at once ({fts[0]} and {fts[1]}, different target names, same folder) raised '
                          f'{type(ex).__name__}: {str(ex)[:200]}')
            return
    for me in (0, 1):
        slot, path = pair[me]
        try:
            frozen = slot.obj.copy() if hasattr(slot.obj, 'copy') else slot.obj
        except Exception:
            frozen = slot.obj
        e = {'path': path, 'ft': fts[me], 'kind': kind, 'twin': twins[me], 'handle': None, 'crash': None, 'obj': frozen,
             'via': 'concurrent', 'overwrite': False}
        files.entries.append(e)
        _load_and_compare(ctx, pool, fs, e, kind, path, 'path')
    ctx.behaviour('save', kind, 'concurrent', st['switches'] > 0)


def _do_load_resave(ctx, pool, fs, files, kind, o):
    """second generation: load an acknowledged file, save the *loaded* object to a new path; that file, too, must read back
    equal to the original"""
    cands = [e for e in files.entries if e['twin'] is not None and e.get('path') and e.get('handle') is None]
    if not cands:
        return
    e = cands[o['p'] % len(cands)]
    load = _loader(kind)
    fs.tick('load', target=fs.rel(e['path']), route='for-resave')
    try:
        loaded = load(e['path'], file_type=e['ft'])
    except Exception:
        return                       # (judged by the ordinary load routes)
    if diff_rec(e['twin'], rec_any(loaded)):
        return                       # (likewise)
    ft = o['ft']
    dest = fs.new_path('h5' if ft == 'hdf5' else 'pkl')
    fs.tick('save', target=fs.rel(dest), ft=ft, overwrite=False, fault=None, obj='loaded')
    try:
        loaded.save(dest, file_type=ft)
    except Exception as ex:
        ctx.violation('fs_model.save_raises', f'save:{kind}:{ft}:loaded-object:raises:{type(ex).__name__}',
                      f'saving an object that was read from a {e["ft"]} file raised {type(ex).__name__}: {str(ex)[:200]}')
        return
    files.entries.append({'path': dest, 'ft': ft, 'kind': kind, 'twin': e['twin'], 'handle': None, 'crash': None,
                          'obj': loaded, 'via': 'second-generation:' + e['ft'], 'overwrite': False})
    ctx.probe('second_generation_saves')
    ctx.behaviour('save', kind, 'second-generation', e['ft'], ft)


def _do_save(ctx, pool, fs, files, objs, kind, o):
    slot = objs[o['t'] % len(objs)]
    obj = slot.obj
    for dname in ('rdm_descriptors', 'pattern_descriptors', 'obs_descriptors', 'channel_descriptors', 'time_descriptors'):
        for v in getattr(obj, dname, {}).values():
            if v is None or any(x is None for x in v):
                # None entries are not among the descriptor value types the statement quantifies over (the library refuses
                # them for HDF5): no file is expected, but whatever the save attempt does, "saving does not change the
                # in-memory object"
                before = rec_any(obj)
                try:
                    obj.save(fs.new_path('h5'), file_type='hdf5', overwrite=True)
                except Exception:
                    pass
                import gc as _gc
                _gc.collect()
                if diff_rec(before, rec_any(obj)):
                    ctx.violation('fs_model.save_mutates', f'save:{kind}:hdf5:mutates-object',
                                  f'saving a {kind} object that has None descriptor entries changed the in-memory object: {diff_rec(before, rec_any(obj))[0][1]}')
                ctx.probe('object_with_missing_descriptor_entries_not_saved')
                return
    ft, ow, target = o['ft'], o['overwrite'], o['target']
    ext = 'h5' if ft == 'hdf5' else 'pkl'
    if o.get('ext') == 'other':
        ext = 'pkl' if ft == 'hdf5' else 'h5'       # a name whose ending suggests the other format: the explicit file_type decides
    elif o.get('ext') == 'none':
        ext = 'dat'
    elif o.get('ext') == 'hdf5' and ft == 'hdf5':
        ext = 'hdf5'
    fault = tuple(o['fault']) if o['fault'] else None
    entry = None
    handle = None
    reopened = None
    dest = None
    as_pathobj = False
    if target in ('pathobj', 'existing_pathobj'):
        # pathlib.Path targets: natively understood by h5py (the pickle writer documents str or handle only)
        as_pathobj = ft == 'hdf5'
        target = 'existing' if target == 'existing_pathobj' else 'path'
    if target == 'existing':
        c = [e for e in files.of(ft) if e['path'] and e.get('handle') is None]
        if as_pathobj:
            # for a pathlib.Path the library has no existence check of its own: the refusal comes from h5py finding the
            # object's keys already present, so only files that hold an acknowledged object qualify
            c = [e for e in c if e['twin'] is not None]
        if not c:
            target = 'path'
        else:
            entry = c[o['p'] % len(c)]
            dest = entry['path']
    if target == 'append_handle':
        # a second object pickled to the same open handle, right behind the first (pickle streams may hold several objects)
        c = [e for e in files.of('pkl', with_handle=True) if e['twin'] is not None and not e.get('appended')
             and not e.get('faulty_handle')]
        if ft != 'pkl' or not c or o['fault']:
            target = 'handle'
        else:
            e0 = c[o['p'] % len(c)]
            h = e0['handle']
            try:
                h.seek(0, 2)
                fs.tick('save', target='<append_handle>', ft='pkl', overwrite=False, fault=None, obj=slot.sid)
                twin2 = rec_any(obj)
                obj.save(h, file_type='pkl', overwrite=False)
                h.flush() if hasattr(h, 'flush') else None
            except Exception as ex:
                ctx.violation('fs_model.save_raises', f'save:{kind}:pkl:append_handle:raises:{type(ex).__name__}',
                              f'second save to the same open pickle handle raised {type(ex).__name__}: {str(ex)[:200]}')
                return
            e0['appended'] = twin2
            # read both objects back in sequence from the start of the stream
            load = _loader(kind)
            try:
                h.seek(0)
                first = load(h, file_type='pkl')
                second = load(h, file_type='pkl')
            except Exception as ex:
                ctx.violation('fs_model.load_raises', f'load:{kind}:pkl:sequential-handle:raises:{type(ex).__name__}',
                              f'reading two objects in sequence from one pickle handle raised {type(ex).__name__}: {str(ex)[:200]}')
                return
            for nm, got, tw in (('first', first, e0['twin']), ('second', second, twin2)):
                dd = diff_rec(tw, rec_any(got))
                if dd:
                    ctx.violation('fs_model.roundtrip', f'load:{kind}:pkl:sequential-handle:{nm}',
                                  f'two objects pickled one after the other to the same handle: the {nm} object read back differs: {dd[0][1]}')
                    return
            e0['twin'] = None          # the handle now holds a two-object stream; not reused by the single-object routes
            ctx.probe('sequential_handle_loads')
            ctx.behaviour('save', kind, 'append_handle')
            return
    if target == 'dirty_handle':
        c = [e for e in files.of(ft, with_handle=True) if e['path'] and e['twin'] is not None]
        if not c:
            target = 'handle'
        else:
            entry = c[o['p'] % len(c)]
            handle = dest = entry['handle']
            ow = True
            if ft == 'pkl' and o['t'] % 3 == 0 and not entry.get('faulty_handle'):
                # the file is opened again the way a script that keeps adding to / updating a file opens it (append or
                # update mode) and the object saved with overwrite: afterwards the file holds exactly the new object
                try:
                    entry['handle'].close()
                except Exception:
                    pass
                mode = ['ab', 'r+b', 'a+b'][(o['t'] // 3) % 3]
                reopened = handle = dest = fs.open_handle(entry['path'], mode)
                entry['handle'] = None
                target = 'reopened_handle:' + mode
                ctx.probe('save_to_reopened_handle:' + mode)
    if target == 'path':
        dest = fs.new_path(ext)
    elif target == 'handle':
        path = fs.new_path(ext)
        handle = dest = fs.open_handle(path, 'w+b', fault=fault if ft == 'pkl' else None, by_fd=bool(o.get('fd')) and not fault)
        entry = {'path': path, 'ft': ft, 'kind': kind, 'twin': None, 'handle': handle, 'crash': None,
                 'faulty_handle': bool(fault) and ft == 'pkl'}
        files.entries.append(entry)
    elif target == 'bytesio':
        handle = dest = io.BytesIO()
        entry = {'path': None, 'ft': ft, 'kind': kind, 'twin': None, 'handle': handle, 'crash': None}
        files.entries.append(entry)
    if entry is None:
        entry = {'path': dest, 'ft': ft, 'kind': kind, 'twin': None, 'handle': None, 'crash': None}
        files.entries.append(entry)
    if fault and (isinstance(dest, str) or ft == 'hdf5'):
        fs.pending_fault = fault
    if as_pathobj and isinstance(dest, str):
        import pathlib
        dest_arg = pathlib.Path(dest)
    else:
        dest_arg = dest
    old_twin = entry['twin']
    fired_before = sum(ctx.faults.values())
    fs.tick('save', target=fs.rel(dest) if isinstance(dest, str) else '<%s>' % target, ft=ft, overwrite=ow, fault=o['fault'], obj=slot.sid)
    twin_before = rec_any(obj)
    types_before = typerec(obj)
    raised = None
    try:
        obj.save(dest_arg, file_type=ft, overwrite=ow)
    except Exception as ex:
        raised = ex
        raised.__traceback__ = None      # do not keep the failed call's frames (and its h5py File object) alive
    fs.pending_fault = None
    if reopened is not None:
        try:
            reopened.close()
        except Exception:
            pass
    if raised is not None:
        import gc
        gc.collect()                     # finalise the File object of the failed save now, deterministically
    fault_fired = sum(ctx.faults.values()) > fired_before
    # (2) the in-memory object is unchanged, whether or not the save failed
    after = rec_any(obj)
    d2 = diff_rec(twin_before, after)
    if d2:
        ctx.violation('fs_model.save_mutates', f'save:{kind}:{ft}:mutates-object', f'save({ft}) changed the in-memory object: {d2[0][1]}')
    types_after = typerec(obj)
    if types_after != types_before:
        ch = sorted(k for k in set(types_before) | set(types_after) if types_before.get(k) != types_after.get(k))
        ctx.violation('fs_model.save_mutates', f'save:{kind}:{ft}:mutates-object:container',
                      f'save({ft}) changed the in-memory object: {ch[0]} was {types_before.get(ch[0])}, is {types_after.get(ch[0])}')
    else:
        ctx.probe('save_kept_containers')
    pool.sweep('save', args=[slot.sid])
    existing_path = target == 'existing'
    sig = (kind, slot.op, target + ('-pathlib' if as_pathobj else ''), ft, ow, o['fault'][0] if o['fault'] else None)
    if raised is not None:
        if existing_path and ft == 'hdf5' and not ow and not fault_fired and (isinstance(raised, ValueError) or as_pathobj):
            # (3) refused: the path must still hold the old object
            ctx.probe('overwrite_refused')
            ctx.behaviour('save-refused', *sig)
            return
        if fault_fired:
            ctx.probe('write_fault_reported')
            entry['twin'] = None          # torn file after a *reported* failure: not judged
            entry['crash'] = None
            entry['handle'] = None        # ... and a handle whose write failed is not reused
            ctx.behaviour('save-failed', *sig)
            return
        ctx.violation('fs_model.save_raises', f'save:{kind}:{ft}:{target}:raises:{type(raised).__name__}',
                      f'save({kind} from {slot.op}, {ft}, target {target}, overwrite={ow}) raised {type(raised).__name__}: {str(raised)[:200]}')
        entry['twin'] = None
        return
    # save returned normally
    if existing_path and ft == 'hdf5' and not ow:
        ctx.violation('fs_model.overwrite', f'save:{kind}:hdf5:existing:not-refused',
                      f'save to an existing HDF5 path with overwrite=False did not refuse')
    try:
        frozen = obj.copy() if hasattr(obj, 'copy') else obj
    except Exception:
        frozen = obj
    entry.update({'twin': twin_before, 'obj': frozen, 'via': target, 'overwrite': ow, 'kind': kind})
    if fault_fired:
        ctx.probe('write_fault_swallowed')    # allowed only if the file nevertheless holds the object (checked by loads)
    if isinstance(dest, str) and o['crash']:
        entry['crash'] = fs.snapshot(dest)
    else:
        entry['crash'] = None
    ctx.probe('saves_acknowledged')
    ctx.behaviour('save', *sig, bool(entry['crash']))
