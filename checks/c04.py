"""C04 -- each stored evaluation is the direct comparison of prediction and resampled data.

All draws are served by the RNG seam (draw faults biased to the routines' own thresholds); spies record the
resamples, fold sets, ceilings and fitter calls the routine *actually* made; a label-aligned reference
re-evaluates every stored number from those observations. Replay metamorphics: NaN-exclusion and
reproducibility."""
from __future__ import annotations
from collections import Counter

import numpy as np

from sim.kernel import HarnessError, StopRun, ReplayDiverged
from sim.rngseam import RngSeam, RANDINT_FAULTS, SHUFFLE_FAULTS
from sim.spies import Spies
from sim import gen
from sim.gen import norm, normlist
from sim.twins.rdms_ref import check_assoc, uid_seqs

PROPERTY = 'C04'
RULE = ('seeded plans: data stack (3-8 RDMs, 5-12 conditions, dyadic values with ties, optional grouping descriptors), '
        '1-3 models from {fixed, weighted, select, interpolate} with fitters {regress, ridge, select, interpolate, mock}, '
        'method in {cosine, corr, spearman, rho-a, tau-a, cosine_cov, corr_cov}, one routine of {eval_fixed, '
        'eval_bootstrap(_pattern/_rdm), crossval over a fold generator, bootstrap_crossval x boot_type, '
        'eval_dual_bootstrap(_random), bootstrap_testset(_pattern/_rdm)} with options N, k_pattern, k_rdm, n_cv, '
        'boot_noise_ceil, theta, use_correction; every draw served by the RNG seam with draw faults steered to the '
        'usable/unusable thresholds. Non-trivial = the routine returned and the reference re-evaluated at least one '
        'stored number; distinct = distinct (routine, option class, model kinds, method, draw-fault multiset, '
        '#unusable class) signatures.')
ASSUMPTIONS = ['compare(), pool_rdm and Model.predict are trusted primitives here (the noise ceilings are recomputed from pooling and comparison) '
               '(they belong to other properties); a numerical failure inside a fitter is not judged',
               'numpy global RNG is the only entropy source (the reproducibility replay notices any other)',
               'documented usability thresholds as in DESIGN.md Appendix C']
BUDGET = {'quick': {'runs': 1400, 'cap_s': 90, 'wall_s': 110, 'chunk': 10, 'shrink': {'runs': 120, 's': 120}},
          'thorough': {'runs': 30000, 'cap_s': 180, 'wall_s': 1500, 'chunk': 40, 'shrink': {'runs': 300, 's': 300}}}

ROUTINES = [('eval_fixed', 1), ('eval_bootstrap', 3), ('eval_bootstrap_pattern', 2), ('eval_bootstrap_rdm', 2),
            ('crossval', 2), ('bootstrap_crossval', 4), ('eval_dual_bootstrap', 2), ('eval_dual_bootstrap_random', 2),
            ('bootstrap_testset', 1), ('bootstrap_testset_pattern', 1), ('bootstrap_testset_rdm', 1)]
METHODS = ['cosine', 'corr', 'spearman', 'rho-a', 'tau-a', 'cosine_cov', 'corr_cov', 'cosine', 'corr']
TOL = 1e-9


def val_c(r, a, b):
    from sim.kernel import H
    lo, hi = (a, b) if a <= b else (b, a)
    return 0.5 + (H('c', int(r), int(lo), int(hi)) % 64) / 8.0


def gen_plan(rng, tier, index):
    big = tier == 'thorough'
    routine = rng.wpick(ROUTINES)
    spec = gen.gen_rdms_spec(rng, n_rdm=(2, 3) if (routine == 'eval_fixed' and rng.chance(0.4)) else (3, 8), n_cond=(5, 12 if big else 10), nan_prob=0.0,
                             kinds=('unique', 'groups', 'unique'), allow_allsame=False)
    spec['measure'] = 'euclidean'
    method = rng.pick(METHODS)
    models = []
    for i in range(rng.randint(1, 3)):
        kind = rng.pick(['fixed', 'weighted', 'select', 'interpolate', 'fixed', 'weighted'])
        if kind == 'weighted' and method not in ('cosine', 'corr', 'cosine_cov', 'corr_cov'):
            kind = 'select'
        fitter = {'fixed': 'mock', 'select': 'select', 'interpolate': 'interpolate',
                  'weighted': rng.pick(['regress', 'ridge'])}[kind]
        m = {'kind': kind, 'fitter': fitter, 'via_default': rng.chance(0.3)}
        models.append(m)
    if len(models) > 1 and rng.chance(0.15):
        models[-1]['name'] = 'm0'          # two models may carry the same name
    opts = {'N': rng.randint(2, 8 if big else 6),
            'k_pattern': rng.pick([1, 2, 2, 3, None]), 'k_rdm': rng.pick([1, 2, 2, 3, None]),
            'n_cv': rng.pick([1, 2, 2, 3]), 'boot_noise_ceil': rng.chance(0.7),
            'boot_type': rng.pick(['both', 'pattern', 'rdm']),
            'rdm_desc': rng.pick(['index', 'grp', 'uid', 'index']),
            'pat_desc': rng.pick(['index', 'grp', 'uid', 'index']),
            'explicit_theta': rng.chance(0.4), 'theta_seed': rng.randrange(1000),
            'n_rdm_t': rng.randint(0, 3), 'n_pattern_t': rng.randint(0, 4),
            'cv_gen': rng.pick(['sets_k_fold', 'sets_k_fold_pattern', 'sets_k_fold_rdm', 'sets_leave_one_out_rdm',
                                'sets_leave_one_out_pattern', 'sets_random', 'sets_of_k_pattern']),
            'cv_random': rng.chance(0.6), 'k': rng.randint(1, 3)}
    if 'pos' in spec['pat_desc'] and rng.chance(0.5):
        opts['pat_desc'] = 'pos'
    opts['use_correction'] = rng.chance(0.5) and opts['n_cv'] > 1
    kinds = rng.subset(RANDINT_FAULTS + SHUFFLE_FAULTS, 0.3, 1.0)
    return {'routine': routine, 'spec': spec, 'method': method, 'models': models, 'opts': opts, 'bare_model': rng.chance(0.5), 'warm_eval': rng.chance(0.35), 'index_groups': rng.chance(0.15),
            'faults': {'rate': rng.pick([0.0, 0.25, 0.5, 0.5]), 'kinds': kinds, 'k_targets': [2, 3, 4, 5, 6]},
            'meta6': rng.chance(0.5), 'meta7': rng.chance(0.25), 'meta8': rng.chance(0.005)}


def directed_plans(tier):
    spec = {'rdm_uids': [4, 9, 2, 7, 11, 6], 'cond_uids': [7, 3, 12, 5, 9, 1], 'nan_cells': [], 'measure': 'euclidean',
            'descriptors': {},
            'rdm_desc': {'grp': {'values': ['b', 'a', 'c', 'a', 'b', 'c'], 'container': 'list', 'kind': 'groups'}},
            'pat_desc': {'grp': {'values': [30, 10, 20, 10, 40, 50], 'container': 'array', 'kind': 'groups'}}}
    base_opts = {'N': 3, 'k_pattern': 1, 'k_rdm': 1, 'n_cv': 1, 'boot_noise_ceil': True, 'boot_type': 'both',
                 'rdm_desc': 'grp', 'pat_desc': 'grp', 'explicit_theta': False, 'theta_seed': 1, 'n_rdm_t': 1,
                 'n_pattern_t': 1, 'cv_gen': 'sets_k_fold', 'cv_random': True, 'k': 2, 'use_correction': False}
    plans = []
    for routine in ('eval_fixed', 'eval_bootstrap', 'eval_bootstrap_rdm', 'eval_bootstrap_pattern',
                    'bootstrap_crossval', 'eval_dual_bootstrap', 'bootstrap_testset'):
        plans.append({'routine': routine, 'spec': spec, 'method': 'cosine',
                      'models': [{'kind': 'fixed', 'fitter': 'mock', 'via_default': True},
                                 {'kind': 'weighted', 'fitter': 'regress', 'via_default': False}],
                      'opts': dict(base_opts), 'faults': {'rate': 0.0, 'kinds': []}, 'meta6': False, 'meta7': True,
                      'meta8': routine in ('eval_bootstrap', 'bootstrap_crossval', 'eval_dual_bootstrap')})
    return plans


def summarize(plan):
    s = {k: plan[k] for k in ('routine', 'method', 'models', 'opts', 'faults')}
    s['n_rdm'] = len(plan['spec']['rdm_uids'])
    s['n_cond'] = len(plan['spec']['cond_uids'])
    s['rdm_grp'] = plan['spec']['rdm_desc'].get('grp', {}).get('values')
    s['pat_grp'] = plan['spec']['pat_desc'].get('grp', {}).get('values')
    return s


def shrink_candidates(plan):
    from checks.c09 import _drop
    spec = plan['spec']
    o = plan['opts']
    if plan.get('meta6') or plan.get('meta7'):
        yield {**plan, 'meta6': False, 'meta7': False}
    if len(plan['models']) > 1:
        for i in range(len(plan['models'])):
            yield {**plan, 'models': plan['models'][:i] + plan['models'][i + 1:]}
    if o['N'] > 2:
        yield {**plan, 'opts': {**o, 'N': o['N'] - 1}}
    if plan['faults'].get('rate', 0) > 0:
        yield {**plan, 'faults': {'rate': 0.0, 'kinds': []}}
    for key in ('n_cv', 'k_pattern', 'k_rdm'):
        if o.get(key) and o[key] > 1:
            yield {**plan, 'opts': {**o, key: o[key] - 1, 'use_correction': o['use_correction'] and (key != 'n_cv' or o[key] - 1 > 1)}}
    if len(spec['rdm_uids']) > 3:
        for drop in range(len(spec['rdm_uids'])):
            yield {**plan, 'spec': _drop(spec, 'rdm', drop)}
    if len(spec['cond_uids']) > 5:
        for drop in range(len(spec['cond_uids'])):
            yield {**plan, 'spec': _drop(spec, 'cond', drop)}
    if plan['method'] != 'cosine':
        yield {**plan, 'method': 'cosine'}


# ------------------------------------------------------------------------------------------- reference pieces
class ModelRef:
    def __init__(self, idx, mplan, spec):
        self.kind = mplan['kind']
        self.salt = 'm%d' % idx
        self.n_basis = {'fixed': 1, 'weighted': 2, 'select': 3, 'interpolate': 3}[self.kind]
        self.idx = idx
        self.name = mplan.get('name') or 'm%d' % idx      # names need not be unique

    def basis(self, a, b):
        return [gen.val_b(900 + m, a, b, self.salt) for m in range(self.n_basis)]

    def value(self, theta, a, b):
        bs = self.basis(a, b)
        if self.kind == 'fixed':
            return bs[0]
        if self.kind == 'select':
            return bs[int(0 if theta is None else np.asarray(theta).reshape(-1)[0] if np.ndim(theta) else theta)]
        th = np.ones(self.n_basis) if theta is None else np.asarray(theta, dtype=float).reshape(-1)
        if self.kind == 'interpolate':
            th = np.maximum(th, 0)
        return float(sum(t * v for t, v in zip(th, bs)))


def ref_eval(mref, theta, target, method):
    """mean similarity between the model prediction restricted *by uid* to the target's conditions and the target RDMs"""
    from rsatoolbox.rdm import RDMs, compare
    ru, cu = uid_seqs(target)
    nc = len(cu)
    pred = np.empty(nc * (nc - 1) // 2)
    p = 0
    for i in range(nc):
        for j in range(i + 1, nc):
            a, b = cu[i], cu[j]
            pred[p] = np.nan if a == b else mref.value(theta, a, b)
            p += 1
    pr = RDMs(pred.reshape(1, -1))
    return float(np.mean(compare(pr, target, method)))


def _close(a, b, tol=TOL):
    a = np.asarray(a, dtype=float)
    b = np.asarray(b, dtype=float)
    if a.shape != b.shape:
        return False
    na, nb = np.isnan(a), np.isnan(b)
    if not np.array_equal(na, nb):
        return False
    if not na.all():
        x, y = a[~na], b[~nb]
        return bool(np.all(np.abs(x - y) <= tol * (1 + np.maximum(np.abs(x), np.abs(y)))))
    return True


def _same(a, b):
    a = np.asarray(a, dtype=float)
    b = np.asarray(b, dtype=float)
    return a.shape == b.shape and a.tobytes() == b.tobytes() or (a.shape == b.shape and np.array_equal(a, b, equal_nan=True))


class SpyFitter:
    def __init__(self, inner, log, name, role='supplied'):
        self.inner, self.log, self.name, self.role = inner, log, name, role

    def __call__(self, model, data, method='cosine', pattern_idx=None, pattern_descriptor=None, sigma_k=None):
        ent = {'fn': 'fitter', 'model': model.name, 'model_obj': model, 'data': data, 'method': method,
               'pattern_idx': None if pattern_idx is None else normlist(pattern_idx),
               'pattern_descriptor': pattern_descriptor, 'pos': len(self.log), 'role': self.role}
        self.log.append(ent)
        theta = self.inner(model, data, method=method, pattern_idx=pattern_idx,
                           pattern_descriptor=pattern_descriptor, sigma_k=sigma_k)
        ent['theta'] = theta
        return theta


def _replica(rdms):
    """an equal RDMs object built from scratch: reference calls of trusted primitives must not see whatever earlier
    calls may have left on the object the routine worked on"""
    from copy import deepcopy
    from rsatoolbox.rdm import RDMs
    return RDMs(np.array(rdms.dissimilarities, copy=True), dissimilarity_measure=rdms.dissimilarity_measure,
                descriptors=deepcopy(rdms.descriptors), rdm_descriptors=deepcopy(rdms.rdm_descriptors),
                pattern_descriptors=deepcopy(rdms.pattern_descriptors))


def _ref_boot_ceiling(rdms, method='cosine', rdm_descriptor='index'):
    """the leave-one-group-out noise ceiling of a set of RDMs, from pooling and comparison only (those two stay trusted):
    lower bound = mean over groups of compare(pool(all other groups), group), upper bound = the same with pool(all)"""
    from rsatoolbox.util.inference_util import pool_rdm
    from rsatoolbox.rdm import compare
    labels = normlist(rdms.rdm_descriptors[rdm_descriptor])
    groups = []
    for v in labels:
        if v not in groups:
            groups.append(v)
    pred_all = pool_rdm(rdms, method=method)
    lo, hi = [], []
    for g in groups:
        te_idx = [i for i, v in enumerate(labels) if v == g]
        tr_idx = [i for i, v in enumerate(labels) if v != g] if len(groups) > 1 else te_idx
        test, train = rdms[te_idx], rdms[tr_idx]
        lo.append(np.mean(compare(pool_rdm(train, method=method), test, method)))
        hi.append(np.mean(compare(pred_all, test, method)))
    return float(np.mean(lo)), float(np.mean(hi))


def _ref_cv_ceiling(rdms, ceil_set, test_set, method='cosine', pattern_descriptor='index'):
    """the cross-validated ceiling of given (ceil, test) sets: training RDMs pooled with the method in use and taken at
    the fold's test conditions (lower), all RDMs pooled and taken at the test conditions (upper)"""
    from rsatoolbox.util.inference_util import pool_rdm
    from rsatoolbox.rdm import compare
    lo, hi = [], []
    for train, test in zip(ceil_set, test_set):
        p_tr = pool_rdm(train[0], method=method).subsample_pattern(by=pattern_descriptor, value=test[1])
        p_all = pool_rdm(rdms, method=method).subsample_pattern(by=pattern_descriptor, value=test[1])
        lo.append(np.mean(compare(p_tr, test[0], method)))
        hi.append(np.mean(compare(p_all, test[0], method)))
    return float(np.mean(lo)), float(np.mean(hi))


def _marg(plan, models):
    """the models argument: "a model or a list of models" -- a single model is sometimes passed bare"""
    return models[0] if (plan.get('bare_model') and len(models) == 1) else models


def _build_models(plan, log):
    from rsatoolbox.model import ModelFixed, ModelWeighted, ModelSelect, ModelInterpolate
    from rsatoolbox.model.fitter import Fitter, fit_regress, fit_select, fit_interpolate, fit_mock
    models, fitters, refs = [], [], []
    for i, mp in enumerate(plan['models']):
        ref = ModelRef(i, mp, plan['spec'])
        basis = gen.build_model_rdms(plan['spec'], ref.n_basis, salt=ref.salt)
        cls = {'fixed': ModelFixed, 'weighted': ModelWeighted, 'select': ModelSelect, 'interpolate': ModelInterpolate}[mp['kind']]
        m = cls(ref.name, basis)
        inner = {'mock': fit_mock, 'select': fit_select, 'interpolate': fit_interpolate, 'regress': fit_regress,
                 'ridge': Fitter(fit_regress, ridge_weight=0.3)}[mp['fitter']]
        spy = SpyFitter(inner, log, mp['fitter'])
        if mp.get('via_default'):
            m.default_fitter = spy
        else:
            # a fitter handed to the routine must be the one that fits: the model keeps its own default (observed too)
            m.default_fitter = SpyFitter(m.default_fitter, log, 'model-default', role='default')
        ref.model = m
        ref.supplied = not mp.get('via_default')
        models.append(m)
        fitters.append(None if mp.get('via_default') else spy)
        refs.append(ref)
    return models, fitters, refs


def _thetas(plan, refs):
    if not plan['opts'].get('explicit_theta') and not any(r.kind == 'select' for r in refs):
        return None      # (a selection model needs an explicit index: theta=None is not admissible for it)
    import random
    r = random.Random(plan['opts']['theta_seed'])
    out = []
    for ref in refs:
        if ref.kind == 'fixed':
            out.append(None)
        elif ref.kind == 'select':
            out.append(r.randrange(ref.n_basis))
        else:
            out.append(np.array([r.randint(0, 8) / 4.0 for _ in range(ref.n_basis)]))
    return out


# ------------------------------------------------------------------------------------------- observed-call oracles
class Obs:
    """everything observed during one routine call"""
    pass


def _validate_folds(ctx, plan, ent):
    """the fold sets a routine generated internally are judged by the C05 partition model right when they are returned
    (before the routine rewrites their index lists), so that the chain draws -> resample -> folds -> fit -> score is closed"""
    from checks import c05
    a, kw = ent['args'], ent['kwargs']
    src = a[0]
    # judged by the descriptors the *routine* was called with: groups of its rdm/pattern descriptor must stay on one side
    # whatever the routine hands on to the generator
    rd = plan['opts'].get('rdm_desc') or kw.get('rdm_descriptor', 'index')
    pdn = plan['opts'].get('pat_desc') or kw.get('pattern_descriptor', 'index')
    if (kw.get('rdm_descriptor', 'index'), kw.get('pattern_descriptor', 'index')) != (rd, pdn):
        ctx.probe('fold_generator_called_with_other_descriptors')
    try:
        Gr = len(set(normlist(src.rdm_descriptors[rd])))
        Gp = len(set(normlist(src.pattern_descriptors[pdn])))
    except Exception:
        return
    if ent['fn'] == 'sets_k_fold':
        info = {'gen': 'sets_k_fold', 'Gr': Gr, 'Gp': Gp, 'fold_rdm': kw.get('k_rdm') or 1, 'fold_pat': kw.get('k_pattern') or 1, 'exhaustive': True}
    else:
        nr, npat = kw.get('n_rdm') or 0, kw.get('n_pattern') or 0
        info = {'gen': 'sets_random', 'Gr': Gr, 'Gp': Gp, 'fold_rdm': 2 if nr > 0 else 1, 'fold_pat': 2 if npat > 0 else 1,
                'exhaustive': False, 'n_rdm': nr, 'n_pattern': npat, 'n_cv': kw.get('n_cv', 2)}
    if kw.get('k_rdm') is None and ent['fn'] == 'sets_k_fold' or kw.get('k_pattern') is None and ent['fn'] == 'sets_k_fold':
        return
    gplan = {'gen': ent['fn'], 'rdm_desc': rd, 'pat_desc': pdn}
    tabs = gen.source_tables(plan['spec'])
    if check_assoc(src, *tabs, value_fn=val_c):
        return       # the folded object itself is not a faithful resample: reported by the resample clause
    c05.oracle_A(ctx, gplan, src, tabs, ent['result'], info, value_fn=val_c, prefix=plan['routine'] + ':folds:')
    ctx.probe('internal_fold_sets_validated')


def _fold_small(tr, te):
    return tr[0].n_rdm == 0 or te[0].n_rdm == 0 or tr[0].n_cond <= 2 or te[0].n_cond <= 2


def check_crossval_call(ctx, plan, ent, refs, tabs, routine):
    """validate one observed crossval call: fitter inputs, thetas, label-aligned reference of every fold score"""
    a, kw = ent['args'], ent['kwargs']
    models, rdms, train_set, test_set = a[0], a[1], a[2], a[3]
    method = kw.get('method', 'cosine')
    pdesc = kw.get('pattern_descriptor', 'index')
    res = ent['result']
    ev = np.asarray(res.evaluations)
    nm, nf = len(refs), len(train_set)
    if ev.shape != (1, nm, nf):
        ctx.violation('eval_ref.clause1', f'{routine}:crossval:shape', f'crossval evaluations shape {ev.shape}, expected (1,{nm},{nf})')
        return
    fits = [e for e in ent['inner'] if e['fn'] == 'fitter']
    used = set()
    for f in range(nf):
        tr, te = train_set[f], test_set[f]
        if _fold_small(tr, te):
            if not np.all(np.isnan(ev[0, :, f])):
                ctx.violation('eval_ref.clause2', f'{routine}:crossval:small-fold-not-nan',
                              f'{routine}: fold {f} is too small to evaluate (train {tr[0].n_rdm}x{tr[0].n_cond}, test '
                              f'{te[0].n_rdm}x{te[0].n_cond}) but stored {ev[0, :, f].tolist()}')
            ctx.probe('fold_too_small')
            continue
        for name, part in (('train', tr), ('test', te)):
            probs = check_assoc(part[0], *tabs, value_fn=val_c)
            if probs:
                ctx.violation('eval_ref.folds', f'{routine}:crossval:{name}:{probs[0][0]}',
                              f'{routine}: {name} set of fold {f} is not a faithful part of the data: {probs[0][1]}')
                return
        for j, ref in enumerate(refs):
            mine = [e for e in fits if e['data'] is tr[0] and e['model_obj'] is ref.model]
            if not mine:
                # tolerate memoisation on *content*: a fit on data equal to this fold's training set (same values,
                # same RDMs and conditions, same pattern indices) is a fit on this fold's training set
                fp = _train_fp(tr)
                mine = [e for e in ent['all_fits'] if e['model_obj'] is ref.model and _train_fp((e['data'], e['pattern_idx'])) == fp][:1]
            if len(mine) != 1:
                others = [e for e in fits if e['model_obj'] is ref.model and id(e) not in used]
                ctx.violation('eval_ref.fit_input', f'{routine}:crossval:fit-not-on-training-set',
                              f'{routine}: fold {f}, model {ref.name}: {len(mine)} fitter calls received exactly this '
                              f'fold\'s training RDMs (fitter calls for the model in this crossval: {len(others)})')
                return
            e = mine[0]
            used.add(id(e))
            if getattr(ref, 'supplied', False) and e.get('role') == 'default':
                ctx.violation('eval_ref.fit_input', f'{routine}:crossval:supplied-fitter-not-used',
                              f'{routine}: fold {f}, model {ref.name}: the parameters come from the model\'s default fitter although '
                              f'a fitter was handed to the routine for it')
                return
            if e['pattern_idx'] != normlist(tr[1]) or e['pattern_descriptor'] != pdesc or e['method'] != method:
                ctx.violation('eval_ref.fit_input', f'{routine}:crossval:fit-args',
                              f'{routine}: fold {f}, model {ref.name}: fitter got pattern_idx {e["pattern_idx"]} '
                              f'({e["pattern_descriptor"]}, {e["method"]}); the fold\'s training conditions are {normlist(tr[1])} ({pdesc}, {method})')
                return
            # the training condition multiset advertised must describe the training object
            tr_gv = normlist(tr[0].pattern_descriptors[pdesc])
            if Counter(tr_gv) != Counter(e['pattern_idx']) and set(e['pattern_idx']) != set(tr_gv):
                ctx.violation('eval_ref.fit_input', f'{routine}:crossval:train-idx-mismatch',
                              f'{routine}: fold {f}: training pattern indices {e["pattern_idx"]} do not describe the '
                              f'training object\'s conditions {tr_gv}')
                return
            try:
                exp = ref_eval(ref, e['theta'], te[0], method)
            except Exception as ex:
                ctx.probe('reference_failed')
                continue
            got = ev[0, j, f]
            if not _close(got, exp):
                ctx.violation('eval_ref.clause1', f'{routine}:crossval:score',
                              f'{routine}: fold {f}, model {ref.name}: stored evaluation {got!r} but the comparison of the '
                              f'prediction at the fitted theta {np.asarray(e["theta"]).tolist()} with the test data '
                              f'(conditions by label) gives {exp!r}')
                return
            ctx.probe('fold_scores_reproduced')
    stray = [e for e in fits if id(e) not in used and not any(e['data'] is tr[0] for tr in train_set)]
    if stray:
        ctx.violation('eval_ref.fit_input', f'{routine}:crossval:fit-on-foreign-data',
                      f'{routine}: a fitter was handed data that is not the training set of any fold of this crossval')


def _train_fp(tr):
    d = tr[0]
    return (np.asarray(d.dissimilarities).tobytes(), tuple(uid_seqs(d)[0]), tuple(uid_seqs(d)[1]), tuple(normlist(tr[1])))


def _nest(log):
    """attach to every entry the list of entries logged while it ran (by position)"""
    all_fits = [e for e in log if e['fn'] == 'fitter' and 'theta' in e]
    for e in log:
        if 'end' in e:
            e['inner'] = log[e['pos'] + 1:e['end']]
        else:
            e['inner'] = []
        e['all_fits'] = all_fits


def _distinct(idx):
    return len(set(normlist(idx)))


def _cov(mat_rows):
    """sample covariance (rows = variables) -- numpy's definition, used as the documented statistic"""
    return np.cov(mat_rows)


# ------------------------------------------------------------------------------------------- routine runner
def run_routine(plan, ctx, script=None, strict=False, N_override=None, quiet_oracle=False):
    """Executes the planned routine once under the seams. Returns Obs (or None if inadmissible)."""
    import rsatoolbox
    import rsatoolbox.inference as inf
    from rsatoolbox.inference import evaluate as evm, boot_testset as btm, noise_ceiling as ncm, crossvalsets as cvs
    from rsatoolbox.inference import bootstrap as bsm
    spec, o, routine, method = plan['spec'], plan['opts'], plan['routine'], plan['method']
    data = gen.build_rdms(spec, value_fn=val_c)
    if plan.get('index_groups') and len(spec['rdm_uids']) >= 4:
        # the caller's own 'index' for the RDMs: a grouping (two sessions per subject), not a running number
        data.rdm_descriptors['index'] = [i // 2 for i in range(len(spec['rdm_uids']))]
    log = []
    models, fitters, refs = _build_models(plan, log)
    thetas = _thetas(plan, refs)
    seam = RngSeam(ctx, plan['serve_seed'], plan.get('faults'), script=script, strict_script=strict)
    spies = Spies(clock=lambda: len(seam.served))
    spies.log = log
    obs = Obs()
    obs.data, obs.models, obs.refs, obs.log, obs.thetas = data, models, refs, log, thetas
    N = o['N'] if N_override is None else N_override
    rd, pdn = o['rdm_desc'], o['pat_desc']

    def snap_sets(ent):
        res = ent['result']
        _validate_folds(ctx, plan, ent)
        try:
            ent['adv_test'] = [list(normlist(t[1])) for t in res[1]]
            ent['adv_train'] = [list(normlist(t[1])) for t in res[0]]
            ent['raw_test_idx'] = [t[1] if not isinstance(t[1], list) else list(t[1]) for t in res[1]]
        except Exception:
            pass
    if plan.get('warm_eval'):
        # the same data object was evaluated before with other comparison methods (whatever those calls leave on the
        # object or in the library must not shape this evaluation, e.g. a remembered pooled RDM)
        from rsatoolbox.model import ModelFixed
        wm = ModelFixed('warm', gen.build_model_rdms(plan['spec'], 1, salt='warm'))
        for other in ('corr', 'cosine', 'spearman'):
            if other != method:
                try:
                    evm.eval_fixed(wm, data, method=other)
                except Exception:
                    pass
        # ... and the object held other dissimilarities a moment ago (values corrected in place after a first look at the
        # results): what is evaluated now is the object's present content, not anything remembered per object
        d_ = data.dissimilarities
        if d_.flags.writeable and d_.size:
            saved = d_.copy()
            try:
                d_[...] = saved[::-1, ::-1] * 1.5 + 0.25
                for mth in (method, 'cosine'):
                    try:
                        evm.eval_fixed(wm, data, method=mth)
                    except Exception:
                        pass
                try:
                    ncm.boot_noise_ceiling(data, method=method, rdm_descriptor=o['rdm_desc'])
                except Exception:
                    pass
            finally:
                d_[...] = saved
            ctx.probe('warm_eval_on_other_content')
    with seam, spies:
        real = {}
        for name, fn in (('bootstrap_sample', bsm.bootstrap_sample), ('bootstrap_sample_rdm', bsm.bootstrap_sample_rdm),
                         ('bootstrap_sample_pattern', bsm.bootstrap_sample_pattern)):
            real[name] = fn
            spies.wrap(fn, name)
        for name, fn in (('sets_k_fold', cvs.sets_k_fold), ('sets_random', cvs.sets_random)):
            real[name] = fn
            spies.wrap(fn, name, on_return=snap_sets)
        for name, fn in (('boot_noise_ceiling', ncm.boot_noise_ceiling), ('cv_noise_ceiling', ncm.cv_noise_ceiling)):
            real[name] = fn
            spies.wrap(fn, name)
        real['crossval'] = evm.crossval
        spies.wrap(evm.crossval, 'crossval')
        obs.real = real
        fit_arg = fitters if any(f is not None for f in fitters) else None
        if fit_arg is not None and o.get('theta_seed', 0) % 2:
            fit_arg = [f if f is not None else m.default_fitter for f, m in zip(fitters, models)]
        elif fit_arg is not None:
            fit_arg = list(fitters)      # (None entries stay in the list: those models use their default fitter, the others the one given)
            ctx.probe('fitter_list_with_none_entries' if any(f is None for f in fit_arg) else 'fitter_list_complete')
        kw = {}
        if routine == 'eval_fixed':
            res = evm.eval_fixed(_marg(plan, models), data, theta=thetas, method=method)
        elif routine in ('eval_bootstrap', 'eval_bootstrap_pattern'):
            fn = getattr(evm, routine)
            res = fn(_marg(plan, models), data, theta=thetas, method=method, N=N, pattern_descriptor=pdn, rdm_descriptor=rd,
                     boot_noise_ceil=o['boot_noise_ceil'])
        elif routine == 'eval_bootstrap_rdm':
            res = evm.eval_bootstrap_rdm(_marg(plan, models), data, theta=thetas, method=method, N=N, rdm_descriptor=rd,
                                         boot_noise_ceil=o['boot_noise_ceil'])
        elif routine == 'crossval':
            from checks.c05 import _call_generator, RDM_ONLY
            gplan = {'gen': o['cv_gen'], 'rdm_desc': rd, 'pat_desc': pdn, 'random': o['cv_random'],
                     'k_rdm': o['k_rdm'] or 2, 'k_pattern': o['k_pattern'] or 2, 'k': o['k'], 'n_rdm': o['n_rdm_t'],
                     'n_pattern': o['n_pattern_t'], 'n_cv': o['n_cv'], 'use_default_k': False}
            sets, info = _call_generator(gplan, data)
            if sets is None:
                return None
            obs.sets, obs.sets_info = sets, info
            obs.adv_test = [list(normlist(t[1])) for t in sets[1]]
            obs.cv_pdesc = pdn if o['cv_gen'] not in RDM_ONLY else 'index'
            obs.cv_nc = not any(_fold_small(tr, te) or te[0].n_cond < 4 for tr, te in zip(sets[0], sets[1]))
            res = evm.crossval(_marg(plan, models), data, sets[0], sets[1], ceil_set=sets[2], method=method, fitter=fit_arg,
                               pattern_descriptor=obs.cv_pdesc, calc_noise_ceil=obs.cv_nc)
        elif routine == 'bootstrap_crossval':
            res = evm.bootstrap_crossval(_marg(plan, models), data, method=method, fitter=fit_arg, k_pattern=o['k_pattern'],
                                         k_rdm=o['k_rdm'], N=N, n_cv=o['n_cv'], pattern_descriptor=pdn,
                                         rdm_descriptor=rd, boot_type=o['boot_type'], use_correction=o['use_correction'])
        elif routine == 'eval_dual_bootstrap':
            res = evm.eval_dual_bootstrap(_marg(plan, models), data, method=method, fitter=fit_arg, k_pattern=o['k_pattern'],
                                          k_rdm=o['k_rdm'], N=N, n_cv=o['n_cv'], pattern_descriptor=pdn,
                                          rdm_descriptor=rd, use_correction=o['use_correction'])
        elif routine == 'eval_dual_bootstrap_random':
            Gr = len(set(normlist(data.rdm_descriptors[rd])))
            Gp = len(set(normlist(data.pattern_descriptors[pdn])))
            obs.n_rdm_t = o['n_rdm_t'] % max(Gr - 1, 1)
            cands = [0] + [n for n in (3, 4) if n <= Gp - 3]   # a test set needs >= 3 conditions (or no split)
            obs.n_pattern_t = cands[o['n_pattern_t'] % len(cands)]
            res = evm.eval_dual_bootstrap_random(_marg(plan, models), data, method=method, fitter=fit_arg, n_pattern=obs.n_pattern_t,
                                                 n_rdm=obs.n_rdm_t, N=N, n_cv=o['n_cv'], pattern_descriptor=pdn,
                                                 rdm_descriptor=rd, boot_type=o['boot_type'],
                                                 use_correction=o['use_correction'])
        elif routine == 'bootstrap_testset':
            res = btm.bootstrap_testset(_marg(plan, models), data, method=method, fitter=fit_arg, N=N, pattern_descriptor=pdn,
                                        rdm_descriptor=rd)
        elif routine == 'bootstrap_testset_pattern':
            res = btm.bootstrap_testset_pattern(_marg(plan, models), data, method=method, fitter=fit_arg, N=N, pattern_descriptor=pdn)
        elif routine == 'bootstrap_testset_rdm':
            res = btm.bootstrap_testset_rdm(_marg(plan, models), data, method=method, fitter=fit_arg, N=N, rdm_descriptor=rd)
        else:
            raise HarnessError('unknown routine ' + routine)
    obs.res = res
    obs.N = N
    obs.served = seam.served
    obs.script = seam.script_of_served()
    _nest(log)
    return obs


NUMERIC = ('LinAlgError', 'FloatingPointError', 'ZeroDivisionError')


def _is_numeric_failure(e):
    """failure inside a trusted primitive (fitter, compare, pooling, noise ceiling) on degenerate resampled data"""
    import traceback
    if type(e).__name__ in NUMERIC or 'ingular' in str(e):
        return True
    files = [f.filename for f in traceback.extract_tb(e.__traceback__) if 'rsatoolbox' in f.filename]
    if any(f.endswith('model/fitter.py') for f in files):
        return True
    msg = str(e).lower()
    if files and files[-1].endswith(('compare.py', 'pooling.py', 'inference_util.py', 'rdm_utils.py', 'noise_ceiling.py')) \
            and type(e).__name__ == 'ValueError' and ('nan' in msg or 'zero-size' in msg or 'inf' in msg):
        return True
    return False


# ------------------------------------------------------------------------------------------- oracle
def _groups_n(data, axis, desc):
    d = data.rdm_descriptors if axis == 'rdm' else data.pattern_descriptors
    return len(set(normlist(d[desc])))


def _check_sample_content(ctx, routine, data, sample, rd, pdn, rdm_idx, pattern_idx, tabs, what='resample'):
    probs = check_assoc(sample, *tabs, value_fn=val_c)
    if probs:
        ctx.violation('eval_ref.resample', f'{routine}:{what}:{probs[0][0]}', f'{routine}: {what} is not a faithful resample: {probs[0][1]}')
        return False
    ru, cu = uid_seqs(sample)
    d_ru, d_cu = uid_seqs(data)
    exp_r = Counter(d_ru)
    if rdm_idx is not None:
        gv = normlist(data.rdm_descriptors[rd])
        exp_r = Counter()
        for v in normlist(rdm_idx):
            for g, u in zip(gv, d_ru):
                if g == v:
                    exp_r[u] += 1
    exp_c = Counter(d_cu)
    if pattern_idx is not None:
        gv = normlist(data.pattern_descriptors[pdn])
        exp_c = Counter()
        for v in normlist(pattern_idx):
            for g, u in zip(gv, d_cu):
                if g == v:
                    exp_c[u] += 1
    if Counter(ru) != exp_r or Counter(cu) != exp_c:
        ctx.violation('eval_ref.resample', f'{routine}:{what}:content',
                      f'{routine}: {what} holds RDMs {sorted(Counter(ru).items())} / conditions {sorted(Counter(cu).items())}; '
                      f'the returned indices say {sorted(exp_r.items())} / {sorted(exp_c.items())}')
        return False
    return True


def oracle(ctx, plan, obs):
    routine, o, method = plan['routine'], plan['opts'], plan['method']
    data, refs, log, res = obs.data, obs.refs, obs.log, obs.res
    tabs = gen.source_tables(plan['spec'])
    rd, pdn = o['rdm_desc'], o['pat_desc']
    real = obs.real
    nm = len(refs)
    Gr, Gp = _groups_n(data, 'rdm', rd), _groups_n(data, 'pattern', pdn)

    # ---------- eval_fixed
    if routine == 'eval_fixed':
        ev = np.asarray(res.evaluations)
        if ev.shape != (1, nm, data.n_rdm):
            ctx.violation('eval_ref.clause1', 'eval_fixed:shape', f'evaluations shape {ev.shape}')
            return
        from rsatoolbox.rdm import RDMs, compare
        for j, ref in enumerate(refs):
            th = obs.thetas[j] if obs.thetas else None
            for k in range(data.n_rdm):
                exp = ref_eval(ref, th, data[k], method)
                if not _close(ev[0, j, k], exp):
                    ctx.violation('eval_ref.clause1', 'eval_fixed:score',
                                  f'eval_fixed: model {ref.name}, RDM {k}: stored {ev[0, j, k]!r}, direct comparison gives {exp!r}')
                    return
                ctx.probe('fixed_scores_reproduced')
        nc = _ref_boot_ceiling(_replica(data), method=method, rdm_descriptor='index')
        if not _close(res.noise_ceiling, nc):
            ctx.violation('eval_ref.clause3', 'eval_fixed:ceiling', f'eval_fixed: noise ceiling {np.asarray(res.noise_ceiling).tolist()} != ceiling of the data {list(nc)}')
        if res.dof != data.n_rdm - 1:
            ctx.violation('eval_ref.clause4', 'eval_fixed:dof', f'eval_fixed: dof {res.dof}, expected n_rdm-1 = {data.n_rdm - 1}')
        expv = np.cov(ev[0], ddof=0) / data.n_rdm
        if not _close(np.asarray(res.variances).reshape(-1), np.asarray(expv).reshape(-1)):
            ctx.violation('eval_ref.clause5', 'eval_fixed:variances',
                          f'eval_fixed: variances {np.asarray(res.variances).tolist()} != cov(evaluations, ddof=0)/n_rdm {np.asarray(expv).tolist()}')
        return

    # ---------- direct crossval
    if routine == 'crossval':
        ents = [e for e in log if e['fn'] == 'crossval']
        if len(ents) != 1:
            raise HarnessError('crossval spy did not fire exactly once')
        check_crossval_call(ctx, plan, ents[0], refs, tabs, routine)
        sets = obs.sets
        if sets[2] is not None and obs.cv_nc:
            test_adv = [[t[0], adv] for t, adv in zip(sets[1], obs.adv_test)]
            try:
                nc = _ref_cv_ceiling(_replica(data), sets[2], test_adv, method=method, pattern_descriptor=obs.cv_pdesc)
            except Exception:
                nc = None
            if nc is not None and not _close(res.noise_ceiling, nc):
                ctx.violation('eval_ref.clause3', 'crossval:ceiling',
                              f'crossval: noise ceiling {np.asarray(res.noise_ceiling).tolist()} != cv ceiling of the same sets {list(nc)}')
        elif sets[2] is None and obs.cv_nc:
            # no ceiling sets (pattern-only schemes): one leave-one-out ceiling per evaluated fold, on the data at that
            # fold's test conditions
            exp = []
            try:
                for tr, te, adv in zip(sets[0], sets[1], obs.adv_test):
                    if _fold_small(tr, te):
                        continue
                    exp.append(_ref_boot_ceiling(_replica(data).subsample_pattern(by=obs.cv_pdesc, value=adv), method=method))
                exp = np.array(exp).T
            except Exception:
                exp = None
            if exp is not None and not _close(res.noise_ceiling, exp):
                ctx.violation('eval_ref.clause3', 'crossval:ceiling-per-fold',
                              f'crossval without ceiling sets: noise ceilings {np.asarray(res.noise_ceiling).tolist()} != per-fold ceilings of the data at the test conditions {np.asarray(exp).tolist()}')
            ctx.probe('per_fold_ceilings_checked')
        return

    # ---------- bootstrap_testset*
    if routine.startswith('bootstrap_testset'):
        evals = np.asarray(res[0])
        boots = [e for e in log if e['fn'].startswith('bootstrap_sample')]
        if len(boots) != obs.N:
            ctx.violation('eval_ref.clause1', f'{routine}:n-resamples', f'{routine}: {len(boots)} bootstrap draws for N={obs.N}')
            return
        if evals.shape != (obs.N, nm):
            ctx.violation('eval_ref.clause1', f'{routine}:shape', f'{routine}: evaluations shape {evals.shape}')
            return
        eff_rd = rd
        eff_pd = pdn
        if routine == 'bootstrap_testset_rdm':
            eff_pd = 'index'
        for i, b in enumerate(boots):
            r = b['result']
            sample = r[0]
            rdm_idx = r[1] if routine in ('bootstrap_testset', 'bootstrap_testset_rdm') else None
            pattern_idx = r[2] if routine == 'bootstrap_testset' else (r[1] if routine == 'bootstrap_testset_pattern' else None)
            if not _check_sample_content(ctx, routine, data, sample, eff_rd, eff_pd, rdm_idx, pattern_idx, tabs):
                return
            left_r = sorted(set(normlist(data.rdm_descriptors[eff_rd])) - set(normlist(rdm_idx)), key=str) if rdm_idx is not None else None
            left_p = sorted(set(normlist(data.pattern_descriptors[eff_pd])) - set(normlist(pattern_idx)), key=str) if pattern_idx is not None else None
            usable = (left_p is None or len(left_p) >= 3) and (left_r is None or len(left_r) >= 1)
            nxt = boots[i + 1]['pos'] if i + 1 < len(boots) else len(log)
            cvs_ = [e for e in log[b['pos']:nxt] if e['fn'] == 'crossval']
            if not usable:
                ctx.probe('nan_sample_marked')
                if not np.all(np.isnan(evals[i])):
                    ctx.violation('eval_ref.clause2', f'{routine}:unusable-not-nan',
                                  f'{routine}: resample {i} leaves out {left_r}/{left_p} (too few to test) but stored {evals[i].tolist()}')
                    return
                continue
            if len(cvs_) != 1:
                ctx.violation('eval_ref.clause1', f'{routine}:no-evaluation', f'{routine}: usable resample {i} was evaluated {len(cvs_)} times')
                return
            c = cvs_[0]
            tr, te = c['args'][2], c['args'][3]
            if len(tr) != 1 or tr[0][0] is not sample:
                ctx.violation('eval_ref.fit_input', f'{routine}:train-is-not-the-resample', f'{routine}: resample {i}: training set is not the bootstrap sample')
                return
            te_ru, te_cu = uid_seqs(te[0][0])
            d_ru, d_cu = uid_seqs(data)
            exp_r = [u for u, g in zip(d_ru, normlist(data.rdm_descriptors[eff_rd])) if left_r is None or g in left_r]
            exp_c = [u for u, g in zip(d_cu, normlist(data.pattern_descriptors[eff_pd])) if left_p is None or g in left_p]
            if Counter(te_ru) != Counter(exp_r) or Counter(te_cu) != Counter(exp_c):
                ctx.violation('eval_ref.folds', f'{routine}:test-not-left-out',
                              f'{routine}: resample {i}: test set holds RDMs {sorted(te_ru)} conds {sorted(te_cu)}; left-out are {sorted(exp_r)} / {sorted(exp_c)}')
                return
            check_crossval_call(ctx, plan, c, refs, tabs, routine)
            exp = np.asarray(c['result'].evaluations)[0, :, 0]
            if not _close(evals[i], exp):
                ctx.violation('eval_ref.clause1', f'{routine}:stored-score',
                              f'{routine}: resample {i}: stored {evals[i].tolist()} but the per-model test scores of that resample are {exp.tolist()}')
                return
            ctx.probe('resamples_reproduced')
        return

    # ---------- bootstrap routines returning a Result
    ev = np.asarray(res.evaluations)
    ncl = np.asarray(res.noise_ceiling)
    boots = [e for e in log if e['fn'].startswith('bootstrap_sample')]
    if len(boots) != obs.N or ev.shape[0] != obs.N:
        ctx.violation('eval_ref.clause1', f'{routine}:n-resamples', f'{routine}: {len(boots)} bootstrap draws / {ev.shape[0]} rows for N={obs.N}')
        return
    axis_r = axis_p = True
    if routine == 'eval_bootstrap_pattern':
        axis_r = False
    if routine == 'eval_bootstrap_rdm':
        axis_p = False
    if routine in ('bootstrap_crossval', 'eval_dual_bootstrap_random'):
        axis_r = o['boot_type'] in ('both', 'rdm')
        axis_p = o['boot_type'] in ('both', 'pattern')
    usable_flags = []
    per_mean = []     # per-resample means (models..., ceilings...) for clause 5
    for i, b in enumerate(boots):
        r = b['result']
        sample = r[0]
        if axis_r and axis_p:
            rdm_idx, pattern_idx = r[1], r[2]
        elif axis_r:
            rdm_idx, pattern_idx = r[1], None
        else:
            rdm_idx, pattern_idx = None, r[1]
        if b['args'][0] is not data and not _same(b['args'][0].dissimilarities, data.dissimilarities):
            ctx.violation('eval_ref.resample', f'{routine}:resampled-wrong-object', f'{routine}: resample {i} was not drawn from the data')
            return
        if not _check_sample_content(ctx, routine, data, sample, rd, pdn, rdm_idx, pattern_idx, tabs):
            return
        nu_r = _distinct(rdm_idx) if rdm_idx is not None else Gr
        nu_p = _distinct(pattern_idx) if pattern_idx is not None else Gp
        nxt = boots[i + 1]['pos'] if i + 1 < len(boots) else len(log)
        window = log[b['pos'] + 1:nxt]
        # --- usability by the documented thresholds
        if routine in ('eval_bootstrap', 'eval_bootstrap_pattern'):
            usable = nu_p >= 3
        elif routine == 'eval_bootstrap_rdm':
            usable = True
        elif routine in ('bootstrap_crossval', 'eval_dual_bootstrap'):
            kp = obs.k_pattern
            kr = obs.k_rdm
            usable = nu_r >= kr and nu_p >= 3 * kp
        else:
            usable = nu_r > obs.n_rdm_t and nu_p >= 3 + obs.n_pattern_t
        usable_flags.append(usable)
        row = ev[i]
        ncrow = ncl[:, i] if (ncl.ndim >= 2 and ncl.shape[1] == obs.N) else None
        if not usable:
            ctx.probe('nan_sample_marked')
            if not np.all(np.isnan(row)) or (ncrow is not None and not np.all(np.isnan(ncrow))):
                ctx.violation('eval_ref.clause2', f'{routine}:unusable-not-nan',
                              f'{routine}: resample {i} has {nu_r} distinct RDM groups / {nu_p} distinct condition groups '
                              f'(below the documented threshold) but stored evaluations {row.reshape(-1)[:6].tolist()} '
                              f'ceilings {None if ncrow is None else ncrow.reshape(-1).tolist()}')
                return
            continue
        # --- usable: reproduce the stored numbers
        if routine in ('eval_bootstrap', 'eval_bootstrap_pattern', 'eval_bootstrap_rdm'):
            if row.shape != (nm,):
                ctx.violation('eval_ref.clause1', f'{routine}:shape', f'{routine}: evaluations row shape {row.shape}')
                return
            for j, ref in enumerate(refs):
                th = obs.thetas[j] if obs.thetas else None
                exp = ref_eval(ref, th, sample, method)
                if not _close(row[j], exp):
                    ctx.violation('eval_ref.clause1', f'{routine}:score',
                                  f'{routine}: resample {i}, model {ref.name}: stored {row[j]!r}; comparing the prediction '
                                  f'restricted (by label) to the resample\'s conditions with the resample gives {exp!r}')
                    return
                ctx.probe('resample_scores_reproduced')
            if o['boot_noise_ceil']:
                exp_nc = _ref_boot_ceiling(_replica(sample), method=method, rdm_descriptor=rd)
                if ncrow is None or not _close(ncrow, exp_nc):
                    ctx.violation('eval_ref.clause3', f'{routine}:ceiling',
                                  f'{routine}: resample {i}: stored ceilings {None if ncrow is None else ncrow.tolist()} != ceilings of that resample {list(exp_nc)}')
                    return
                per_mean.append(np.concatenate([row, ncrow]))
            else:
                per_mean.append(np.array(row))
        else:
            cvs_ = [e for e in window if e['fn'] == 'crossval']
            sets_ = [e for e in window if e['fn'] in ('sets_k_fold', 'sets_random')]
            if routine == 'eval_dual_bootstrap':
                n_exp = 3 * obs.n_cv
            elif routine == 'bootstrap_crossval':
                n_exp = obs.n_cv
            else:
                n_exp = 1
            if len(cvs_) != n_exp or len(sets_) != n_exp:
                ctx.violation('eval_ref.clause1', f'{routine}:cv-count',
                              f'{routine}: usable resample {i}: {len(cvs_)} cross-validations / {len(sets_)} fold generations, expected {n_exp}')
                return
            for c, s in zip(cvs_, sets_):
                if c['args'][2] is not s['result'][0] or c['args'][3] is not s['result'][1]:
                    ctx.violation('eval_ref.folds', f'{routine}:cv-sets-mismatch', f'{routine}: resample {i}: crossval was not run on the generated fold sets')
                    return
                check_crossval_call(ctx, plan, c, refs, tabs, routine)
            d_all_r, d_all_c = None, None
            if routine == 'eval_dual_bootstrap':
                shape_ok = row.shape == (nm, obs.k_pattern * obs.k_rdm, obs.n_cv, 3)
                if not shape_ok:
                    ctx.violation('eval_ref.clause1', f'{routine}:shape', f'{routine}: evaluations row shape {row.shape}')
                    return
                means = np.zeros((3, nm + 2))
                for rep in range(obs.n_cv):
                    for t in range(3):
                        c, s = cvs_[rep * 3 + t], sets_[rep * 3 + t]
                        folded = s['args'][0]
                        ok = _check_sample_content(ctx, routine, data, folded, rd, pdn,
                                                   rdm_idx if t in (0, 1) else None, pattern_idx if t in (0, 2) else None,
                                                   tabs, what=f'resample (type {t})')
                        if not ok:
                            return
                        exp = np.asarray(c['result'].evaluations)[0]
                        if not _close(row[:, :, rep, t], exp):
                            ctx.violation('eval_ref.clause1', f'{routine}:stored-score',
                                          f'{routine}: resample {i} rep {rep} type {t}: stored fold scores differ from the cross-validation of that resample')
                            return
                        exp_nc = _recompute_cv_nc(real, plan, obs, folded, s, method, pdn, rd)
                        got_nc = ncl[:, i, rep, t]
                        if exp_nc is not None and not _close(got_nc, exp_nc):
                            ctx.violation('eval_ref.clause3', f'{routine}:ceiling',
                                          f'{routine}: resample {i} rep {rep} type {t}: stored ceilings {got_nc.tolist()} != ceilings of that resample/folds {list(exp_nc)}')
                            return
                per_mean.append(np.concatenate([np.mean(np.mean(row, -2), -2), np.mean(ncl[:, i], -2)], 0))
            else:
                if routine == 'bootstrap_crossval':
                    want_shape = (nm, obs.k_pattern * obs.k_rdm, obs.n_cv)
                else:
                    want_shape = (nm, obs.n_cv)
                if row.shape != want_shape:
                    ctx.violation('eval_ref.clause1', f'{routine}:shape', f'{routine}: evaluations row shape {row.shape}, expected {want_shape}')
                    return
                for rep, (c, s) in enumerate(zip(cvs_, sets_)):
                    folded = s['args'][0]
                    if folded is not sample:
                        ctx.violation('eval_ref.folds', f'{routine}:folded-wrong-object', f'{routine}: resample {i}: folds were not generated from the resample')
                        return
                    exp = np.asarray(c['result'].evaluations)[0]
                    got = row[:, :, rep] if routine == 'bootstrap_crossval' else row
                    if not _close(got, exp):
                        ctx.violation('eval_ref.clause1', f'{routine}:stored-score',
                                      f'{routine}: resample {i} rep {rep}: stored fold scores {np.asarray(got).tolist()} differ from the cross-validation of that resample {exp.tolist()}')
                        return
                    exp_nc = _recompute_cv_nc(real, plan, obs, folded, s, method, pdn, rd)
                    got_nc = ncl[:, i, rep] if routine == 'bootstrap_crossval' else ncl[:, i]
                    if exp_nc is not None:
                        exp_b = np.broadcast_to(np.asarray(exp_nc).reshape(2, *([1] * (np.ndim(got_nc) - 1))), np.shape(got_nc))
                        if not _close(got_nc, exp_b):
                            ctx.violation('eval_ref.clause3', f'{routine}:ceiling',
                                          f'{routine}: resample {i} rep {rep}: stored ceilings {np.asarray(got_nc).tolist()} != ceilings of that resample/folds {list(exp_nc)}')
                            return
                if routine == 'bootstrap_crossval':
                    per_mean.append(np.concatenate([np.mean(np.mean(row, -1), -1), np.mean(ncl[:, i], -1)]))
                else:
                    per_mean.append(np.concatenate([np.mean(row, -1), np.mean(ncl[:, i], -1)]))
            ctx.probe('resamples_reproduced')
    obs.usable = usable_flags
    n_un = usable_flags.count(False)
    # ---------- clause 3 when ceilings are not bootstrapped
    if routine in ('eval_bootstrap', 'eval_bootstrap_pattern', 'eval_bootstrap_rdm') and not o['boot_noise_ceil']:
        exp_nc = _ref_boot_ceiling(_replica(data), method=method, rdm_descriptor=rd)
        if not _close(ncl, exp_nc):
            ctx.violation('eval_ref.clause3', f'{routine}:ceiling-full', f'{routine}: ceilings {ncl.tolist()} != ceilings of the full data {list(exp_nc)}')
    # ---------- clause 4: dof
    exp_dof = {(True, True): min(Gr, Gp) - 1, (True, False): Gr - 1, (False, True): Gp - 1}[(axis_r, axis_p)]
    if res.dof != exp_dof:
        tag = 'groups' if (Gr != data.n_rdm and axis_r) or (Gp != data.n_cond and axis_p) else 'plain'
        ctx.violation('eval_ref.clause4', f'{routine}:dof:{tag}',
                      f'{routine}: dof = {res.dof}; resampled units are {Gr if axis_r else "-"} RDM groups / {Gp if axis_p else "-"} '
                      f'condition groups, so dof should be {exp_dof} (n_rdm={data.n_rdm}, n_cond={data.n_cond})')
    # ---------- clause 5: covariance across usable resamples of per-resample means
    if not (o['use_correction'] and routine in ('bootstrap_crossval', 'eval_dual_bootstrap', 'eval_dual_bootstrap_random')
            and obs.n_cv > 1):
        var = res.variances
        if var is not None and len(per_mean) >= 2:
            var = np.asarray(var)
            M = np.array(per_mean)
            if routine == 'eval_dual_bootstrap':
                # per bootstrap type: (3, nm+2, nm+2)
                expv = np.array([np.cov(M[:, :, t].T) for t in range(3)])
                if var.shape == expv.shape and not _close(var, expv, 1e-7):
                    ctx.violation('eval_ref.clause5', f'{routine}:variances',
                                  f'{routine}: variances are not the sample covariance over usable resamples of the per-resample means')
            else:
                full = np.atleast_2d(np.cov(M.T))
                blk = full[:nm, :nm]
                v2 = np.atleast_2d(var) if var.ndim < 2 else var
                if v2.shape == full.shape:
                    okv = _close(v2, full, 1e-7)
                elif v2.shape == blk.shape:
                    okv = _close(v2, blk, 1e-7)
                else:
                    okv = False
                if not okv:
                    ctx.violation('eval_ref.clause5', f'{routine}:variances',
                                  f'{routine}: variances {v2.tolist()} are not the sample covariance over the {len(per_mean)} '
                                  f'usable resamples of the per-resample means (model block {blk.tolist()})')
            ctx.probe('variances_checked')
    elif res.variances is not None:
        # the documented correction: the variance of a mean over n repetitions is modelled as a + b / n; from the two
        # observed points (single repetitions: a + b, mean of n_cv repetitions: a + b / n_cv) the limit a for infinitely
        # many repetitions is (n_cv * var_mean - var_1) / (n_cv - 1), computed from the stored evaluations and ceilings
        # (covariances of anti-correlated models are negative and stay negative)
        try:
            ev = np.asarray(res.evaluations, dtype=float)
            nc_ = np.asarray(res.noise_ceiling, dtype=float)

            def two_point(ev, nc_):
                """ev: (N_ok, nm, folds, n_cv) or (N_ok, nm, n_cv); nc_: (2, N_ok, n_cv)"""
                n_cv = ev.shape[-1]
                ev_1 = ev.mean(axis=2) if ev.ndim == 4 else ev           # (N_ok, nm, n_cv)
                ev_mean = ev_1.mean(axis=-1)                             # (N_ok, nm)
                nc_mean = nc_.mean(axis=-1)                              # (2, N_ok)
                var_mean = np.cov(np.concatenate([ev_mean.T, nc_mean]))
                var_1 = np.mean([np.cov(np.concatenate([ev_1[:, :, i].T, nc_[:, :, i]])) for i in range(n_cv)], axis=0)
                return (n_cv * var_mean - var_1) / (n_cv - 1)
            expv = None
            if routine == 'eval_dual_bootstrap':
                okr = ~np.isnan(ev[:, 0, 0, 0, 0])
                if okr.sum() >= 2 and ev.ndim == 5 and nc_.shape == (2, ev.shape[0], ev.shape[3], 3):
                    expv = np.array([two_point(ev[okr][..., t], nc_[:, okr][..., t]) for t in range(3)])
            elif routine == 'bootstrap_crossval':
                okr = ~np.isnan(ev[:, 0, 0, 0])
                if okr.sum() >= 2 and nc_.shape == (2, ev.shape[0], ev.shape[-1]):
                    expv = two_point(ev[okr], nc_[:, okr])
            else:
                okr = ~np.isnan(ev[:, 0, 0])
                if okr.sum() >= 2 and ev.ndim == 3 and nc_.shape == (2, ev.shape[0], ev.shape[-1]):
                    expv = two_point(ev[okr], nc_[:, okr])
            if expv is not None:
                got = np.asarray(res.variances)
                if got.shape == expv.shape and not _close(got, expv, 1e-7):
                    bad = np.unravel_index(np.nanargmax(np.abs(got - expv)), expv.shape)
                    ctx.violation('eval_ref.clause5', f'{routine}:variances:corrected',
                                  f'{routine} (use_correction, n_cv={ev.shape[-1] if routine != "eval_dual_bootstrap" else ev.shape[3]}): variances are not '
                                  f'(n_cv * cov of per-resample means - mean cov of single repetitions) / (n_cv - 1); '
                                  f'e.g. {list(map(int, bad))} {got[bad]!r} vs {expv[bad]!r}')
                ctx.probe('corrected_variances_checked')
                ctx.probe('corrected_variances_checked:' + routine)
                if np.any(expv < 0):
                    ctx.probe('corrected_variances_with_negative_entry')
        except StopRun:
            raise
        except Exception:
            ctx.probe('corrected_variances_reference_failed')
    ctx.probe('unusable_resamples', n_un)


def _recompute_cv_nc(real, plan, obs, folded, s_ent, method, pdn, rd):
    """ceilings of the observed resample/fold sets, recomputed with the real primitives"""
    o = plan['opts']
    routine = plan['routine']
    try:
        if routine == 'eval_dual_bootstrap_random':
            crossed = obs.n_rdm_t > 0 or obs.n_pattern_t > 0
        else:
            crossed = obs.k_rdm > 1 or obs.k_pattern > 1
        if crossed:
            test_adv = [[t[0], adv] for t, adv in zip(s_ent['result'][1], s_ent['raw_test_idx'])]
            return _ref_cv_ceiling(_replica(folded), s_ent['result'][2], test_adv, method=method, pattern_descriptor=pdn)
        return _ref_boot_ceiling(_replica(folded), method=method, rdm_descriptor=rd)
    except Exception:
        return None


def _resolve_ks(plan, obs):
    from rsatoolbox.util.inference_util import default_k_pattern, default_k_rdm
    o = plan['opts']
    data = obs.data
    Gr, Gp = _groups_n(data, 'rdm', o['rdm_desc']), _groups_n(data, 'pattern', o['pat_desc'])
    kp, kr = o['k_pattern'], o['k_rdm']
    if kp is None:
        kp = default_k_pattern((1 - 1 / np.exp(1)) * Gp)
    if kr is None:
        if plan['routine'] == 'bootstrap_crossval' and Gr == 1:
            kr = 1
        else:
            kr = default_k_rdm((1 - 1 / np.exp(1)) * Gr)
    obs.k_pattern, obs.k_rdm = kp, kr
    obs.n_cv = o['n_cv']
    if plan['routine'] == 'eval_dual_bootstrap' and kp == 1 and kr == 1:
        obs.n_cv = 1


# ------------------------------------------------------------------------------------------- execute
def _call(plan, ctx, **kw):
    try:
        return run_routine(plan, ctx, **kw), None
    except (HarnessError, ReplayDiverged):
        raise
    except Exception as e:
        return None, e


def _result_arrays(plan, res):
    if plan['routine'].startswith('bootstrap_testset'):
        return [np.asarray(x, dtype=float) for x in res]
    out = [np.asarray(res.evaluations, dtype=float), np.asarray(res.noise_ceiling, dtype=float)]
    if res.variances is not None:
        out.append(np.asarray(res.variances, dtype=float))
    return out


def execute(plan, ctx):
    import rsatoolbox  # noqa
    ctx.components.update(['real:rsatoolbox.inference.evaluate', 'real:rsatoolbox.inference.boot_testset',
                           'real:rsatoolbox.inference.bootstrap', 'real:rsatoolbox.inference.crossvalsets',
                           'real:rsatoolbox.inference.noise_ceiling', 'real:rsatoolbox.model', 'real:rsatoolbox.rdm.compare',
                           'stub:numpy.random (all draws served by the simulator)'])
    routine = plan['routine']
    o = plan['opts']
    ctx.tick('op', routine=routine, method=plan['method'])
    obs, err = _call(plan, ctx, script=plan.get('draw_script'), strict=plan.get('strict_script', False))
    if err is not None:
        if _is_numeric_failure(err):
            ctx.probe('primitive_failed')
            return
        import traceback
        tb = traceback.extract_tb(err.__traceback__)
        where = [f'{f.filename.split("/")[-1]}:{f.name}' for f in tb if 'rsatoolbox' in f.filename][-2:]
        ctx.violation('eval_ref.raises', f'{routine}:raises:{type(err).__name__}',
                      f'{routine} raised {type(err).__name__}: {err} on admissible arguments (at {where}); opts={o}')
        return
    if obs is None:
        ctx.probe('inadmissible_skipped')
        return
    ctx.draw_script = obs.script
    ctx.nontrivial = True
    _resolve_ks(plan, obs)
    if routine == 'eval_dual_bootstrap_random' and not hasattr(obs, 'n_rdm_t'):
        raise HarnessError('missing n_rdm_t')
    oracle(ctx, plan, obs)
    faults = sorted({e['fault'] for e in obs.served})
    n_un = getattr(obs, 'usable', []).count(False)
    ctx.behaviour(routine, plan['method'], ','.join(m['kind'] for m in plan['models']), o['rdm_desc'], o['pat_desc'],
                  o['boot_type'] if routine in ('bootstrap_crossval', 'eval_dual_bootstrap_random') else '-',
                  'corr' if o['use_correction'] else 'nocorr', ','.join(faults), 'un%d' % min(n_un, 3))

    # ---------- clause 6: NaN exclusion as a replay metamorphic (delete the unusable resamples from the history)
    usable = getattr(obs, 'usable', None)
    if plan.get('meta6') and usable and (not all(usable)) and sum(usable) >= 2 and not routine.startswith('bootstrap_testset'):
        boots = [e for e in obs.log if e['fn'].startswith('bootstrap_sample')]
        bounds = [b['k0'] for b in boots] + [len(obs.served)]
        keep = []
        for i, u in enumerate(usable):
            if u:
                keep.extend(range(bounds[i], bounds[i + 1]))
        head = list(range(0, bounds[0]))
        order = head + keep
        old = obs.script
        script = {str(n): old[str(k)] for n, k in enumerate(order)}
        obs2, err2 = _call(plan, ctx, script=script, strict=True, N_override=sum(usable))
        if err2 is not None:
            if not _is_numeric_failure(err2):
                ctx.violation('eval_ref.clause6', f'{routine}:nan-exclusion:raises',
                              f'{routine}: replay of the history without the unusable resamples raised {type(err2).__name__}: {err2}')
        elif obs2 is not None:
            v1, v2 = obs.res.variances, obs2.res.variances
            if (v1 is None) != (v2 is None) or (v1 is not None and not _close(v1, v2, 1e-9)):
                ctx.violation('eval_ref.clause6', f'{routine}:nan-exclusion',
                              f'{routine}: variances with {usable.count(False)} unusable resamples present '
                              f'{np.asarray(v1).tolist()} differ from the variances of the same history without them {np.asarray(v2).tolist()}')
            ctx.probe('nan_exclusion_replayed')

    # ---------- clause 7: reproducibility (replay of the recorded draws; and real seeded RNG twice)
    if plan.get('meta7'):
        obs3, err3 = _call(plan, ctx, script=obs.script, strict=True)
        if err3 is not None or obs3 is None:
            ctx.violation('eval_ref.clause7', f'{routine}:replay-raises', f'{routine}: replay of the recorded draws failed: {err3!r}')
        else:
            for x, y in zip(_result_arrays(plan, obs.res), _result_arrays(plan, obs3.res)):
                if not _same(x, y):
                    ctx.violation('eval_ref.clause7', f'{routine}:not-reproducible',
                                  f'{routine}: replaying the identical draw history gave a different result')
                    break
            ctx.probe('replayed_identically')
        outs = []
        for rep in range(2):
            np.random.seed(1234 + plan['opts']['theta_seed'])
            outs.append(_run_unseamed(plan))
        if outs[0] is not None and outs[1] is not None:
            for x, y in zip(outs[0], outs[1]):
                if not _same(x, y):
                    ctx.violation('eval_ref.clause7', f'{routine}:seed-not-reproducible',
                                  f'{routine}: two runs after np.random.seed(s) gave different results')
                    break
            ctx.probe('seeded_twice_identical')

    # ---------- clause 7 across processes: same seed, fresh interpreters under two other PYTHONHASHSEEDs
    if plan.get('meta8'):
        d1, d2 = _hashseed_digest(plan, 97), _hashseed_digest(plan, 4242)
        if d1 is not None and d2 is not None and d1 != 'none' and d2 != 'none':
            if d1 != d2:
                ctx.violation('eval_ref.clause7', f'{routine}:seed-not-reproducible-across-processes',
                              f'{routine}: the same np.random.seed gives different results in two fresh interpreters that differ only '
                              f'in PYTHONHASHSEED (rdm_descriptor={o["rdm_desc"]}, pattern_descriptor={o["pat_desc"]})')
            ctx.probe('seeded_across_processes_identical')


def _hashseed_digest(plan, hashseed):
    """the routine after np.random.seed(s), real RNG, in a FRESH interpreter under another PYTHONHASHSEED:
    digest of the result arrays (None if it could not run)"""
    import json
    import os
    import subprocess
    import sys
    verif = os.path.dirname(os.path.dirname(os.path.abspath(__file__)))
    code = ('import sys, json, hashlib, warnings; warnings.filterwarnings("ignore"); sys.path.insert(0, %r); import numpy as np; '
            'from sim import runner; mod = runner.load_check("C04"); plan = json.loads(sys.stdin.read()); '
            'np.random.seed(1234 + plan["opts"]["theta_seed"]); out = mod._run_unseamed(plan); '
            'print("DIGEST", "none" if out is None else hashlib.sha256(b"".join(np.ascontiguousarray(x).tobytes() for x in out)).hexdigest())') % verif
    env = dict(os.environ, PYTHONHASHSEED=str(hashseed), TQDM_DISABLE='1')
    try:
        r = subprocess.run([sys.executable, '-c', code], input=json.dumps(plan), capture_output=True, text=True, env=env, timeout=120)
    except Exception:
        return None
    for ln in r.stdout.splitlines():
        if ln.startswith('DIGEST '):
            return ln.split()[1]
    return None


def _run_unseamed(plan):
    """the routine with the real numpy RNG (seeded by the caller), no seams, no spies"""
    class _Null:
        seq = 0
        def tick(self, *a, **k):
            return 0
        def fault(self, *a, **k):
            pass
        nontrivial = False
    try:
        import rsatoolbox.inference.evaluate as evm
        import rsatoolbox.inference.boot_testset as btm
        o, routine, method = plan['opts'], plan['routine'], plan['method']
        data = gen.build_rdms(plan['spec'], value_fn=val_c)
        if plan.get('index_groups') and len(plan['spec']['rdm_uids']) >= 4:
            data.rdm_descriptors['index'] = [i // 2 for i in range(len(plan['spec']['rdm_uids']))]
        models, fitters, refs = _build_models(plan, [])
        thetas = _thetas(plan, refs)
        fit_arg = [m.default_fitter for m in models]
        rd, pdn, N = o['rdm_desc'], o['pat_desc'], o['N']
        if routine == 'eval_fixed':
            res = evm.eval_fixed(_marg(plan, models), data, theta=thetas, method=method)
        elif routine in ('eval_bootstrap', 'eval_bootstrap_pattern'):
            res = getattr(evm, routine)(_marg(plan, models), data, theta=thetas, method=method, N=N, pattern_descriptor=pdn,
                                        rdm_descriptor=rd, boot_noise_ceil=o['boot_noise_ceil'])
        elif routine == 'eval_bootstrap_rdm':
            res = evm.eval_bootstrap_rdm(_marg(plan, models), data, theta=thetas, method=method, N=N, rdm_descriptor=rd,
                                         boot_noise_ceil=o['boot_noise_ceil'])
        elif routine == 'bootstrap_crossval':
            res = evm.bootstrap_crossval(_marg(plan, models), data, method=method, fitter=fit_arg, k_pattern=o['k_pattern'],
                                         k_rdm=o['k_rdm'], N=N, n_cv=o['n_cv'], pattern_descriptor=pdn,
                                         rdm_descriptor=rd, boot_type=o['boot_type'], use_correction=o['use_correction'])
        elif routine == 'eval_dual_bootstrap':
            res = evm.eval_dual_bootstrap(_marg(plan, models), data, method=method, fitter=fit_arg, k_pattern=o['k_pattern'],
                                          k_rdm=o['k_rdm'], N=N, n_cv=o['n_cv'], pattern_descriptor=pdn,
                                          rdm_descriptor=rd, use_correction=o['use_correction'])
        else:
            return None
        return _result_arrays(plan, res)
    except Exception:
        return None
