"""C12 -- value-returning operations neither modify nor alias their inputs.

The pool machine (sim/pool.py) with the bystander rule: after every operation every live object that is not the
in-place target must equal its snapshot bit for bit (arrays by bytes, descriptors by value, library-managed 'index'
entries excluded). Producer operations are followed by in-place mutators on the result or on the source."""
from __future__ import annotations
from sim.pool import Pool
from sim.ops_rdms import RdmsOps, gen_family, gen_op
from sim.rngseam import RngSeam
from checks import c10, c11

PROPERTY = 'C12'
RULE = ('seeded histories over a pool of aliased RDMs objects: producers (indexing, subset/subsample, concat, copy, round '
        'trips, from_partials, permute, transforms, rescale, mean, compare, pooling, model construction/prediction/fit, '
        'evaluation, bootstrap, fold generation) each followed with probability 1/2 by an in-place op (reorder, sort_by, '
        'append, array write) on the result or its source; all (producer, mutator, result|source) triples enumerated in '
        'directed scenarios. After every op every live bystander is compared with its snapshot. Non-trivial = at least one '
        'bystander comparison after an op on an object with a live relative; distinct = distinct (op, relation) signatures.')
ASSUMPTIONS = ['fingerprint = array bytes + normalised descriptor values without the library-managed index entries (DESIGN '
               'Appendix E); container type of a descriptor (list vs ndarray) is not part of the value']
BUDGET = {'quick': {'runs': 5000, 'cap_s': 30, 'wall_s': 100, 'chunk': 40},
          'thorough': {'runs': 150000, 'cap_s': 60, 'wall_s': 1500, 'chunk': 250}}

PROD_EXTRA = ['rank_transform', 'rank_transform_twice', 'sqrt_transform', 'positive_transform', 'minmax_transform',
              'geotopological_transform', 'geodesic_transform', 'transform_fun', 'rescale', 'mean', 'compare', 'pool_rdm',
              'model_predict', 'model_fit', 'eval_fixed', 'bootstrap_sample', 'sets_k_fold', 'boot_noise_ceiling',
              'get_vectors_write', 'tmpfile_save']
WEIGHTS = [(n, w) for n, w in c10.WEIGHTS if n not in ('size_recovery', 'to_df')] + [(n, 1.5) for n in PROD_EXTRA]
PRODUCERS = set(c10.PRODUCERS) | set(PROD_EXTRA)


def gen_plan(rng, tier, index):
    if rng.chance(0.004):
        return {'machine': 'sweep', 'variant': rng.randrange(8), 'ops': []}
    if rng.chance(0.35):      # dataset histories under the bystander rule
        fam = c11.gen_data_family(rng)
        n = rng.randint(2, 20 if rng.chance(0.3) else 8)
        return {'machine': 'data', 'family': fam, 'ops': c11.gen_ops(rng, n, weights=c11.WEIGHTS + [('calc_rdm', 12)])}
    fam = gen_family(rng)
    n = rng.randint(3, 30 if rng.chance(0.3) else 10)
    return {'family': fam, 'ops': c10.gen_ops(rng, n, weights=WEIGHTS, producers=PRODUCERS),
            'faults': {'rate': 0.3, 'kinds': ['identity_shuffle', 'reversed_shuffle']}}


def directed_plans(tier):
    plans = [{'machine': 'sweep', 'variant': v, 'ops': []} for v in (0, 1)]
    plans += [p for p in c10.directed_plans(tier) if p['ops'][0]['op'] != 'size_recovery']
    fam = plans[2]['family']
    base = {'t': 0, 'u': 0, 'a': [1, 2, 3, 4, 5, 6], 'flag': False, 'flag2': False}
    for prod in PROD_EXTRA:
        for a0 in range(4):
            for mut, _ in c10.INPLACE:
                for tgt in (-1, -2):
                    plans.append({'family': fam, 'faults': {'rate': 0, 'kinds': []},
                                  'ops': [{**base, 'op': prod, 'a': [a0, 2, 3, 4, 5, 6]}, {**base, 'op': mut, 't': tgt}]})
    for p in c11.directed_plans(tier):
        plans.append({**p, 'machine': 'data'})
    unsorted_root = {'temporal': False, 'ou': [5, 8, 2, 9, 4, 7], 'cu': [3, 9, 1], 'tu': [],
                     'obs_desc': {'cond': {'values': [2, 0, 1, 1, 2, 0], 'container': 'list'}, 'run': {'values': [1, 0, 0, 1, 0, 1], 'container': 'array'}},
                     'ch_desc': {'roi': {'values': [1, 2, 1], 'container': 'list'}, 'name': {'values': ['ch3', 'ch9', 'ch1'], 'container': 'list'}},
                     'time_desc': {}, 'descriptors': {'subj': 's1', 'sess': 1}}
    for a0 in range(6):
        for a1 in range(6):
            for fl in (False, True):
                plans.append({'machine': 'data', 'family': {'roots': [unsorted_root]},
                              'ops': [{**base, 'op': 'calc_rdm', 'a': [a0, a1, 1, 0, 0, 0], 'flag': fl, 'flag2': True}]})
    dfam = c11.directed_plans(tier)[-1]['family']
    for prod in sorted(c11.PRODUCERS):
        for mut, _ in c11.INPLACE:
            for tgt in (-1, -2):
                for a0 in range(3):
                    plans.append({'machine': 'data', 'family': dfam,
                                  'ops': [{**base, 'op': prod, 'a': [a0, 2, 3, 4, 5, 6]}, {**base, 'op': mut, 't': tgt}]})
    return plans


def summarize(plan):
    if plan.get('machine') == 'sweep':
        return plan
    return c11.summarize(plan) if plan.get('machine') == 'data' else c10.summarize(plan)


def execute(plan, ctx):
    if plan.get('machine') == 'sweep':
        from sim import sweep
        import rsatoolbox  # noqa
        ctx.components.update(['real:every public callable of rsatoolbox.rdm/.data/.model/.inference/.util found by introspection'])
        status = sweep.sweep(ctx, plan['variant'],
                             report=lambda sig, msg: ctx.violation('sweep', sig, msg))
        n_ex = sum(1 for v in status.values() if v == 'exercised')
        ctx.probe('sweep_callables_exercised', n_ex)
        ctx.probe('sweep_callables_not_exercised', len(status) - n_ex)
        ctx.notes['sweep'] = {'callables_found': len(status), 'exercised': n_ex,
                              'not_exercised': {k: v for k, v in status.items() if v != 'exercised'}}
        for k, v in status.items():
            if v == 'exercised':
                ctx.behaviour('sweep', k)
        return
    if plan.get('machine') == 'data':
        return c11.execute(plan, ctx, prop=PROPERTY)
    return c10.execute(plan, ctx, prop=PROPERTY)
