"""File-system seam: a per-run scratch directory with deterministic file names, fault-injecting file objects, rebinding of
the module-level names the library opens files through (rsatoolbox.io.pkl.open, rsatoolbox.io.hdf5.File), and crash
snapshots (the bytes the OS holds for a path at the instant save() returns)."""
from __future__ import annotations
import errno
import io
import os
import shutil
import tempfile


class FaultyFile:
    """wraps a real binary file object; raises OSError on write according to the fault"""

    def __init__(self, f, seam, fault, name=None):
        self._f = f
        self._seam = seam
        self._fault = fault          # ('enospc_after', n_bytes) | ('eio_on_write', k) | None
        self._written = 0
        self._nwrites = 0
        if name is not None:
            self.name = name
        elif hasattr(f, 'name'):
            self.name = f.name

    def write(self, b):
        self._nwrites += 1
        if not isinstance(b, (bytes, bytearray)):
            b = memoryview(b).cast('B')          # pickle protocol 5 hands out PickleBuffer objects (no len())
        self._seam.tick('write')      # (no byte count: the pickle of an object whose dict order follows set iteration differs in size)
        if self._fault is not None:
            kind, arg = self._fault
            if kind == 'enospc_after' and self._written + len(b) > arg:
                part = max(0, arg - self._written)
                if part:
                    self._f.write(bytes(b[:part]))     # short write, then the error
                    self._written += part
                self._seam.fired(kind)
                raise OSError(errno.ENOSPC, 'No space left on device (injected)')
            if kind == 'eio_on_write' and self._nwrites == arg:
                self._seam.fired(kind)
                raise OSError(errno.EIO, 'Input/output error (injected)')
        n = self._f.write(b)
        self._written += len(b)
        return n

    def __getattr__(self, k):
        return getattr(self._f, k)

    def __enter__(self):
        return self

    def __exit__(self, *a):
        self._f.close()


class _YieldFile:
    """a file whose writes are scheduling points (two saves in flight at once, see checks/c16 concurrent_saves)"""

    def __init__(self, f, seam):
        self._f, self._seam = f, seam

    def write(self, b):
        if self._seam.on_io is not None:
            self._seam.on_io('write')
        return self._f.write(b)

    def __getattr__(self, k):
        return getattr(self._f, k)

    def __enter__(self):
        return self

    def __exit__(self, *a):
        self._f.close()


class _FaultyAttrs:
    def __init__(self, attrs, owner):
        self._a, self._o = attrs, owner

    def __setitem__(self, k, v):
        self._o._count('attr')
        self._a[k] = v

    def __getattr__(self, k):
        return getattr(self._a, k)


class FaultyGroup:
    """proxy of an h5py File/Group: the k-th write call (dataset, group, attribute) raises OSError"""

    def __init__(self, g, seam, state):
        self._g, self._seam, self._state = g, seam, state

    def _count(self, what):
        self._state[1] += 1
        self._seam.tick('h5write', n=self._state[1])      # (not the kind of item: the order of items follows dict order, see snapshot())
        kind, arg = self._state[0]
        k = arg if kind == 'eio_on_write' else 1 + arg // 200      # ENOSPC after n bytes ~ after n/200 write calls
        if self._state[1] == k:
            self._seam.fired(kind)
            raise OSError(errno.ENOSPC if kind == 'enospc_after' else errno.EIO, 'injected HDF5 write failure')

    def __setitem__(self, k, v):
        self._count('dataset')
        self._g[k] = v

    def __getitem__(self, k):
        return self._g[k]

    def create_group(self, name, *a, **kw):
        self._count('group')
        return FaultyGroup(self._g.create_group(name, *a, **kw), self._seam, self._state)

    @property
    def attrs(self):
        return _FaultyAttrs(self._g.attrs, self)

    def __getattr__(self, k):
        return getattr(self._g, k)


class FsSeam:
    def __init__(self, ctx):
        self.ctx = ctx
        base = os.environ.get('VERIF_SCRATCH') or tempfile.gettempdir()
        self.dir = tempfile.mkdtemp(prefix='verif-fs-', dir=base)
        self.n = 0
        self.handles = []
        self._restore = []
        self.pending_fault = None     # fault to apply to the next file the library opens by path
        self.on_io = None             # scheduling hook: called at every open / write while two saves are in flight

    def tick(self, call, **kw):
        self.ctx.tick('fs', call=call, **kw)
        self.ctx.nontrivial = True

    def fired(self, kind):
        self.ctx.fault(kind)

    def new_path(self, ext):
        self.n += 1
        # (file names are case-sensitive: every third name has capitals)
        if ext in ('h5', 'hdf5') and self.n % 5 == 0:
            return os.path.join(self.dir, f'p{self.n}.pkl.{ext}')      # (a name may mention another format: the ending decides)
        return os.path.join(self.dir, (f'p{self.n}.{ext}' if self.n % 3 else f'SessB{self.n}.{ext}'))

    def rel(self, path):
        if not isinstance(path, str):
            return '<handle>'
        b = os.path.basename(path)
        import re
        if re.fullmatch(r'(p|SessB|crash)\d+(\.\w+)*', b):
            return b
        # a name the library chose itself (a scratch file next to the target ...): such names may hold the process id or a
        # random suffix, so the log refers to them by order of first appearance
        al = self.__dict__.setdefault('_aliases', {})
        return al.setdefault(b, '<library-named:%d>' % (len(al) + 1))

    def open_handle(self, path, mode, fault=None, by_fd=False):
        if by_fd:
            # a handle whose .name is an integer file descriptor (os.fdopen, tempfile.TemporaryFile ...)
            f = os.fdopen(os.open(path, os.O_RDWR | os.O_CREAT | os.O_TRUNC), mode)
        else:
            f = open(path, mode)
        self.handles.append(f)
        return FaultyFile(f, self, fault) if fault else f

    def snapshot(self, path):
        """kill -9 here: only what has reached the OS survives"""
        self.n += 1
        dst = os.path.join(self.dir, f'crash{self.n}' + os.path.splitext(path)[1])
        with open(path, 'rb') as src:       # a second descriptor sees only what was written through to the OS
            data = src.read()
        with open(dst, 'wb') as out:
            out.write(data)
        # (the byte count is not logged: Dataset.from_df orders descriptors by iterating a set, so the bytes of a file that
        #  holds such an object depend on PYTHONHASHSEED -- fixed per batch by the CLI -- while the events of a run do not)
        self.tick('crash_snapshot', target=self.rel(path), empty=len(data) == 0)
        return dst

    # ---------------------------------------------------------------- rebinding library-level open()/File
    def install(self):
        import rsatoolbox.io.pkl as pklm
        import rsatoolbox.io.hdf5 as h5m
        seam = self
        real_file = h5m.File

        def sim_open(path, mode='r', *a, **kw):
            seam.tick('open', target=seam.rel(path), mode=mode)
            if seam.on_io is not None:
                seam.on_io('open')
            f = open(path, mode, *a, **kw)
            fault, seam.pending_fault = seam.pending_fault, None
            if fault and 'w' in mode:
                return FaultyFile(f, seam, fault)
            if seam.on_io is not None and 'w' in mode:
                return _YieldFile(f, seam)
            return f

        def sim_File(target, mode='r', *a, **kw):
            fault, seam.pending_fault = (seam.pending_fault, None) if mode != 'r' else (None, seam.pending_fault)
            seam.tick('h5open', target=seam.rel(target), mode=mode)
            if seam.on_io is not None:
                seam.on_io('h5open')      # (a scheduling point outside any h5py call: no HDF5 lock is held here)
            f = real_file(target, mode, *a, **kw)
            if fault:
                # HDF5 write faults are injected at the h5py object level (k-th write call fails with OSError), never
                # inside the HDF5 C library's file driver: a failing driver callback leaves the C library in a state that
                # crashes the interpreter later, which would be an artefact of the harness
                return FaultyGroup(f, seam, [fault, 0])
            return f
        self._restore = [(pklm, 'open', getattr(pklm, 'open', None)), (h5m, 'File', real_file)]
        pklm.open = sim_open
        h5m.File = sim_File
        return self

    def uninstall(self):
        for mod, name, val in self._restore:
            if val is None:
                try:
                    delattr(mod, name)
                except AttributeError:
                    pass
            else:
                setattr(mod, name, val)
        self._restore = []
        import gc
        gc.collect()      # finalise h5py File objects (the library never closes them) while their file objects are open
        for f in self.handles:
            try:
                f.close()
            except Exception:
                pass
        shutil.rmtree(self.dir, ignore_errors=True)

    def __enter__(self):
        return self.install()

    def __exit__(self, *a):
        self.uninstall()
