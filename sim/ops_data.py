"""Dataset / TemporalDataset operations of the pool machine with their twin semantics (DESIGN Appendix B).

Identity encoding: m[o, c, t] = 10000*ouid + 100*cuid + tuid + 0.25 (exact), where every observation, channel and time
point carries a unique id; time points are identified by their 'time' value (time = tuid/4 - 1, exact and increasing).
Row tokens are (ouid, tuid|None), column tokens (cuid, tuid|None): conversions between temporal and flat datasets move the
time id into the row or column token."""
from __future__ import annotations
import random
from collections import Counter
from copy import deepcopy

import numpy as np

from .kernel import HarnessError
from .fp import fp_any
from .gen import norm, normlist
from . import gen

DATA_OPS = ['split_obs', 'split_channel', 'split_time', 'subset_obs', 'subset_channel', 'subset_time', 'sort_by', 'merge',
            'odd_even_split', 'nested_odd_even_split', 'bin_time', 'time_as_observations', 'time_as_channels', 'df_roundtrip',
            'copy_ds', 'average_by', 'array_write_ds', 'measurements_tensor']


def encd(o, c, t):
    return 10000.0 * o + 100.0 * c + (0 if t is None else t) + 0.25


def vscale(spec):
    """integer-typed measurements (spike counts ...) hold 4x the encoded value, which is integral"""
    return 4.0 if spec.get('dtype') == 'int64' else 1.0


def tval(t):
    return t / 4.0 - 1.0


def gen_data_family(rng, n_roots=(1, 2)):
    roots = []
    used_o = set()
    used_t = set()
    fdtype = rng.pick(['float64'] * 7 + ['float32', 'int64'])      # dtype of the measurements handed to the constructor (per family)
    ctyp = rng.pick(['int', 'str', 'float'])      # one label type per descriptor across the family (numpy coerces mixed columns)
    n_ch = rng.pick([1, 1, 2, 3, 4, 5])
    fpar = rng.pick([None, None, None, 'list', 'array'])
    cu = rng.sample(range(0, 31), n_ch)
    ch_desc = {'roi': gen.gen_grouping(rng, n_ch), 'name': {'values': ['ch%d' % u for u in cu], 'container': rng.pick(['list', 'array'])}}
    if rng.chance(0.15):
        ch_desc['pos3'] = {'values': [[float(u), u + 1.0, u + 2.0] for u in cu], 'container': 'array'}
    for _ in range(rng.randint(*n_roots)):
        temporal = rng.chance(0.55)
        n_obs = rng.pick([1, 2, 3, 4, 6, 8, 12]) if not rng.chance(0.08) else rng.randint(20, 40)
        ou = rng.sample([u for u in range(1, 90) if u not in used_o], min(n_obs, 89 - len(used_o)))
        used_o.update(ou)
        n_obs = len(ou)
        n_time = (rng.pick([1, 2, 3, 4, 5]) if not rng.chance(0.2) else rng.randint(17, 30)) if temporal else 0
        tu = sorted(rng.sample([t for t in range(0, 99) if t not in used_t], n_time)) if temporal else []
        used_t.update(tu)
        if temporal and rng.chance(0.3):
            rng.shuffle(tu)
        spec = {'temporal': temporal, 'ou': ou, 'cu': list(cu), 'tu': tu,
                'obs_desc': {'cond': gen.gen_grouping(rng, n_obs, kinds=('groups', 'groups', 'unique', 'allsame'), typ=ctyp),
                             'run': gen.gen_grouping(rng, n_obs, kinds=('groups', 'unique'), typ='int')},
                'ch_desc': ch_desc, 'time_desc': {}, 'order': rng.pick(['F', 'S']) if rng.chance(0.3) else 'C',
                'dtype': fdtype,
                'descriptors': {'subj': rng.pick(['s1', 's2']), 'sess': rng.pick([1, 2])}}
        if fpar:
            # a dataset-level descriptor holding several numbers (the parameter vector a simulation stores, a voxel size):
            # the same for the whole family, as list or as array
            spec['descriptors']['par'] = [1.0, 2.5]
            spec['par_array'] = fpar == 'array'
        if rng.chance(0.15):
            # descriptors with one *row* per item (an (onset, duration) pair per observation, a position per channel)
            spec['obs_desc']['xy'] = {'values': [[float(u), u + 0.5] for u in ou], 'container': 'array'}
        if rng.chance(0.15):
            # the user's own descriptor called 'index' (trial numbers): an ordinary descriptor for datasets
            spec['obs_desc']['index'] = {'values': [100 + 3 * i for i in range(n_obs)], 'container': rng.pick(['list', 'array'])}
        if rng.chance(0.2):
            # a numeric observation descriptor with missing entries (reaction times of missed trials ...)
            rt = [rng.pick([0.5, 0.75, 0.5]) for _ in range(n_obs)]
            for i_ in rng.sample(range(n_obs), max(1, n_obs // 3)):
                rt[i_] = float('nan')
            spec['obs_desc']['rt'] = {'values': rt, 'container': rng.pick(['list', 'array'])}
        if temporal and rng.chance(0.4):
            spec['time_desc']['phase'] = gen.gen_grouping(rng, n_time, kinds=('groups', 'unique'), typ='str')
        if temporal and rng.chance(0.8 if n_time > 16 else 0.35):
            # a second numeric time descriptor whose values may repeat (concatenated epochs): usable for subset_time
            spec['time_desc']['onset'] = gen.gen_grouping(rng, n_time, kinds=('groups', 'unique', 'groups'), typ=rng.pick(['float', 'float', 'int']),
                                                          fewdups=0.7 if n_time > 16 else 0.25, huge_ok=False)      # (onsets are times, not identifiers)
        if temporal and rng.chance(0.15):
            # an integer identifier per time point (frame numbers of a long recording, beyond 2**53): carried along, never
            # selected by
            spec['time_desc']['tid'] = {'values': [9007199254740993 + 3 * t for t in tu], 'container': rng.pick(['list', 'array'])}
        roots.append(spec)
    return {'roots': roots}


def _cont(d):
    return gen._container(d)


def _layout(m, spec):
    """memory layout / dtype of the measurements handed to the constructor (values are exact in float32 too)"""
    m = m.astype(spec.get('dtype', 'float64'))
    if spec.get('order') == 'F':
        m = np.asfortranarray(m)
    elif spec.get('order') == 'S':
        big = np.full(tuple(2 * d + 1 for d in m.shape), -7, dtype=m.dtype)     # a strided view into a larger buffer
        sl = tuple(slice(1, None, 2) for _ in m.shape)
        big[sl] = m
        m = big[sl]
    return m


def _dlevel(spec):
    d = dict(spec['descriptors'])
    if 'par' in d:
        d['par'] = np.array(d['par']) if spec.get('par_array') else list(d['par'])
    return d


def build_dataset(spec):
    from rsatoolbox.data import Dataset, TemporalDataset
    ou, cu, tu = spec['ou'], spec['cu'], spec['tu']
    obs = {'ouid': list(ou)}
    for k, d in spec['obs_desc'].items():
        obs[k] = _cont(d)
    ch = {'cuid': list(cu)}
    for k, d in spec['ch_desc'].items():
        ch[k] = _cont(d)
    if spec['temporal']:
        m = vscale(spec) * np.array([[[encd(o, c, t) for t in tu] for c in cu] for o in ou], dtype=float).reshape(len(ou), len(cu), len(tu))
        m = _layout(m, spec)
        td = {'time': np.array([tval(t) for t in tu])}
        for k, d in spec['time_desc'].items():
            td[k] = _cont(d)
        return TemporalDataset(m, descriptors=_dlevel(spec), obs_descriptors=obs, channel_descriptors=ch,
                               time_descriptors=td)
    m = vscale(spec) * np.array([[encd(o, c, None) for c in cu] for o in ou], dtype=float).reshape(len(ou), len(cu))
    m = _layout(m, spec)
    return Dataset(m, descriptors=_dlevel(spec), obs_descriptors=obs, channel_descriptors=ch)


def _scalar_valued(v):
    """a descriptor whose entries are scalars (usable to select / group by)"""
    ok = np.asarray(v, dtype=object).ndim == 1 if not isinstance(v, np.ndarray) else v.ndim == 1
    return ok and not any(isinstance(x, (float, np.floating)) and x != x for x in v)      # and none of them missing (NaN)


class DataOps:
    def __init__(self, pool, family):
        self.pool = pool
        self.ctx = pool.ctx
        self.obs_tab, self.ch_tab, self.time_tab = {}, {}, {}
        self.vs = vscale(family['roots'][0])
        self.par = family['roots'][0].get('descriptors', {}).get('par')      # family-wide dataset-level vector (or None)
        for spec in family['roots']:
            for i, o in enumerate(spec['ou']):
                self.obs_tab[o] = {k: d['values'][i] for k, d in spec['obs_desc'].items()}
                # what the root says about all its rows at dataset level (subject, session) belongs to each row too: after
                # any history it must be found on the row or, where it is the same for all rows, at dataset level
                for k, v in spec.get('descriptors', {}).items():
                    if k != 'par':
                        self.obs_tab[o].setdefault(k, v)
            for j, c in enumerate(spec['cu']):
                self.ch_tab[c] = {k: d['values'][j] for k, d in spec['ch_desc'].items()}
            for k_, t in enumerate(spec['tu']):
                self.time_tab.setdefault(t, {}).update({k: d['values'][k_] for k, d in spec['time_desc'].items()})
        for kind_ in ('dataset', 'tdataset'):
            pool.sem_checkers[kind_] = (lambda slot, opname, prop='C11': self.check(slot, opname, prop=prop), 'C11')
        for spec in family['roots']:
            try:
                obj = build_dataset(spec)
            except Exception as e:
                if pool.prop == 'C11':
                    pool.report('C11', 'dataset_twin.raises', f'constructor:raises:{type(e).__name__}', f'dataset constructor raised {type(e).__name__}: {e}')
                raise HarnessError(f'dataset constructor raised {e!r}')
            sem = {'rows': [(o, None) for o in spec['ou']], 'cols': [(c, None) for c in spec['cu']],
                   'times': list(spec['tu']) if spec['temporal'] else None}
            s = pool.add(obj, 'tdataset' if spec['temporal'] else 'dataset', sem, 'root', [])
            self.check(s, 'root', prop='HARNESS')
            if s.sem is None:
                raise HarnessError('generated dataset root is inconsistent')

    # ------------------------------------------------------------------ reading an object
    @staticmethod
    def _time_of(vals):
        out = []
        for v in vals:
            t = (float(v) + 1.0) * 4.0
            out.append(int(round(t)) if abs(t - round(t)) < 1e-9 else None)
        return out

    def tokens(self, obj):
        od, cd = obj.obs_descriptors, obj.channel_descriptors
        if 'ouid' not in od and 'ouid' in obj.descriptors:      # constant over rows -> may live at dataset level
            rows_o = [norm(obj.descriptors['ouid'])] * obj.n_obs
        else:
            rows_o = normlist(od['ouid'])
        rows_t = self._time_of(od['time']) if 'time' in od else [None] * len(rows_o)
        cols_c = normlist(cd['cuid'])
        cols_t = self._time_of(cd['time']) if 'time' in cd else [None] * len(cols_c)
        times = None
        if hasattr(obj, 'time_descriptors'):
            times = self._time_of(obj.time_descriptors['time'])
        return list(zip(rows_o, rows_t)), list(zip(cols_c, cols_t)), times

    def check(self, slot, opname, order=('seq', 'seq', 'seq'), prop='C11'):
        sem = slot.sem
        if sem is None:
            return
        obj = slot.obj
        rep = lambda clause, msg: self._fail(slot, prop, opname, clause, msg)
        try:
            rows, cols, times = self.tokens(obj)
        except KeyError as e:
            return rep('descriptors', f'identifying descriptor lost: {e!r}')
        m = np.asarray(obj.measurements)
        shape = (len(rows), len(cols)) + ((len(times),) if times is not None else ())
        if m.shape != shape:
            return rep('shape', f'measurements shape {m.shape} but descriptors describe {shape}')
        dims_ok = obj.n_obs == len(rows) and obj.n_channel == len(cols) and (times is None or obj.n_time == len(times))
        if not dims_ok:
            return rep('shape', f'n_obs/n_channel/n_time attributes inconsistent with descriptors')
        if self.par is not None and not sem.get('par_dropped'):
            got_par = obj.descriptors.get('par')
            if got_par is None or not np.array_equal(np.asarray(got_par, dtype=float), np.asarray(self.par, dtype=float)):
                return rep('descriptors', f'dataset-level descriptor par = {self.par} (the same in every source) is {got_par!r} in the result')
        for axis, got, exp, mode in (('obs', rows, sem['rows'], order[0]), ('channel', cols, sem['cols'], order[1]),
                                     ('time', times, sem['times'], order[2])):
            if (got is None) != (exp is None):
                return rep('content', f'{axis} axis presence differs')
            if got is None:
                continue
            bad = (got != exp) if mode == 'seq' else (Counter(got) != Counter(exp))
            if bad:
                kind = 'order' if Counter(got) == Counter(exp) else 'content'
                return rep(kind + ':' + axis, f'result has {axis} tokens {got}, expected {"sequence" if mode == "seq" else "multiset"} {exp}')
        sem['rows'], sem['cols'], sem['times'] = rows, cols, times
        binned = sem.get('bins')
        # values
        for i, (o, tr) in enumerate(rows):
            for j, (c, tc) in enumerate(cols):
                if times is None:
                    t = tr if tr is not None else tc
                    exp = self.vs * encd(o, c, t)
                    if m[i, j] != exp:
                        return rep('assoc', f'cell (row {i}: obs {o} time {tr}; col {j}: channel {c} time {tc}) is {m[i, j]!r}, source value {exp}')
                else:
                    for k, t in enumerate(times):
                        if binned is not None:
                            mem = binned[k]
                            exp = float(np.mean([self.vs * encd(o, c, tt) for tt in mem]))
                            if abs(m[i, j, k] - exp) > 1e-9 * (1 + abs(exp)):
                                return rep('bin', f'binned cell obs {o} channel {c} bin {k} (members {mem}) is {m[i, j, k]!r}, mean of members is {exp}')
                        else:
                            exp = self.vs * encd(o, c, t)
                            if m[i, j, k] != exp:
                                return rep('assoc', f'cell obs {o} channel {c} time {t} at ({i},{j},{k}) is {m[i, j, k]!r}, source value {exp}')
        # descriptors
        drop = set(sem.get('dropped', ()))
        remap = sem.get('remap') or {}        # group names re-assigned by the user on this object (or an ancestor)
        for i, (o, tr) in enumerate(rows):
            exp = dict(self.obs_tab.get(o, {}))
            if tr is not None:
                exp.update(self.time_tab.get(tr, {}))
            for k, v in exp.items():
                if ('obs', k) in drop:
                    continue
                if ('obs', k) in remap:
                    v = remap[('obs', k)].get(norm(v), v)
                if k not in obj.obs_descriptors:
                    if k in obj.descriptors and norm(obj.descriptors[k]) == norm(v):
                        continue      # constant over rows: may legitimately live at dataset level
                    return rep('descriptors', f'obs descriptor {k!r} lost')
                if norm(obj.obs_descriptors[k][i]) != norm(v):
                    return rep('descriptors', f'row {i} (obs {o}, time {tr}): descriptor {k!r} = {norm(obj.obs_descriptors[k][i])!r}, source has {norm(v)!r}')
        for j, (c, tc) in enumerate(cols):
            exp = dict(self.ch_tab.get(c, {}))
            if tc is not None:
                exp.update(self.time_tab.get(tc, {}))
            for k, v in exp.items():
                if ('channel', k) in drop:
                    continue
                if ('channel', k) in remap:
                    v = remap[('channel', k)].get(norm(v), v)
                if k not in obj.channel_descriptors:
                    return rep('descriptors', f'channel descriptor {k!r} lost')
                if norm(obj.channel_descriptors[k][j]) != norm(v):
                    return rep('descriptors', f'column {j} (channel {c}, time {tc}): descriptor {k!r} = {norm(obj.channel_descriptors[k][j])!r}, source has {norm(v)!r}')
        if times is not None and binned is None:
            for k_, t in enumerate(times):
                for k, v in self.time_tab.get(t, {}).items():
                    if k not in obj.time_descriptors:
                        return rep('descriptors', f'time descriptor {k!r} lost')
                    if norm(obj.time_descriptors[k][k_]) != norm(v):
                        return rep('descriptors', f'time point {t}: descriptor {k!r} = {norm(obj.time_descriptors[k][k_])!r}, source has {norm(v)!r}')
        self.ctx.probe('semantic_checks')

    def _fail(self, slot, prop, opname, clause, msg):
        if self.pool.report(prop, 'dataset_twin.' + clause.split(':')[0], f'{opname}:{clause}', f'{opname}: {msg}'):
            pass
        slot.sem = None

    # ------------------------------------------------------------------ helpers
    def data(self, kinds=('dataset', 'tdataset'), sem_only=False):
        return [s for s in self.pool.of_kind(*kinds) if (s.sem is not None or not sem_only)]

    def pick(self, o, key='t', kinds=('dataset', 'tdataset'), sem_only=False):
        if 'sid' in o and key == 't':
            s_ = self.pool.slots[o['sid']]
            return s_ if (s_.alive and s_.kind in kinds and (s_.sem is not None or not sem_only)) else None
        c = self.data(kinds, sem_only)
        if not c:
            return None
        if o[key] == -1:
            return c[-1]
        if o[key] == -2:
            par = [s for s in c if s.sid in c[-1].parents]
            return par[0] if par else c[-1]
        return c[o[key] % len(c)]

    def _raise(self, opname, e, prop='C11'):
        self.pool.report(prop, 'dataset_twin.raises', f'{opname}:raises:{type(e).__name__}',
                         f'{opname} raised {type(e).__name__}: {e} on admissible arguments')

    def _kind(self, obj):
        return 'tdataset' if hasattr(obj, 'time_descriptors') else 'dataset'

    def _finish(self, opname, objs_sems, parents, order=('seq', 'seq', 'seq'), keep=3, sig=()):
        produced = []
        self._batch = getattr(self, '_batch', 0) + 1
        for k, (obj, sem) in enumerate(objs_sems):
            s = self.pool.add(obj, self._kind(obj), sem, opname, parents)
            s.batch = (self._batch, len(objs_sems))
            self.check(s, opname, order=order)
            produced.append(s)
            if k >= keep:
                s.alive = False
        self.pool.sweep(opname, args=parents, produced=[s.sid for s in produced])
        self.ctx.behaviour(opname, *sig)
        return produced

    def run(self, o):
        fn = getattr(self, 'op_' + o['op'], None)
        if fn is None:
            raise HarnessError('unknown op ' + o['op'])
        self.ctx.tick('op', op=o['op'], t=o['t'], u=o['u'], a=o['a'], flag=o['flag'])
        done = fn(o)
        if done is False:
            self.ctx.probe('op_skipped_inadmissible')
        else:
            self.ctx.nontrivial = True
            self.ctx.probe('ops_executed')
        live = [s for s in self.pool.slots if s.alive]
        if len(live) > 16:
            for s in live:
                if s.op != 'root':
                    s.alive = False
                    break

    def _by(self, d, k, exclude=('ouid', 'cuid')):
        keys = sorted(x for x in d.keys() if x not in exclude and _scalar_valued(d[x])) + [x for x in ('ouid', 'cuid') if x in d]      # never by dict order
        # (merge_datasets and from_df order descriptor keys by iterating sets)
        return keys[k % len(keys)] if keys else None

    @staticmethod
    def _first_appearance(vals):
        out = []
        for v in vals:
            if v not in out:
                out.append(v)
        return out

    # ------------------------------------------------------------------ ops
    def _split(self, o, axis):
        kinds = ('tdataset',) if axis == 'time' else ('dataset', 'tdataset')
        src = self.pick(o, kinds=kinds)
        if src is None:
            return False
        obj = src.obj
        d = {'obs': obj.obs_descriptors, 'channel': obj.channel_descriptors}.get(axis) if axis != 'time' else obj.time_descriptors
        by = self._by(d, o['a'][0], exclude=('ouid', 'cuid') if axis != 'time' else ())
        if by is None:
            return False
        if axis == 'time':
            ks = sorted(k for k in d.keys() if _scalar_valued(d[k]))
            by = ks[o['a'][0] % len(ks)]
        if axis == 'obs' and o['a'][5] % 5 == 0:
            # a split by a descriptor with missing (NaN) entries: the rows without a value form a part of their own, no row
            # is lost
            nan_keys = sorted(k for k, v in d.items() if isinstance(v, np.ndarray) and v.ndim == 1 and v.dtype.kind == 'f'
                              and np.isnan(v).any() and not np.isnan(v).all())
            if nan_keys:
                by = nan_keys[0]
                self.ctx.probe('split_by_descriptor_with_nan')
        vals = normlist(d[by])
        if len({type(v) for v in vals if v != 'NaN'}) != 1:
            return False
        try:
            parts = getattr(obj, 'split_' + axis)(by)
        except Exception as e:
            return self._raise('split_' + axis, e)
        order = self._first_appearance(vals)
        if len(parts) != len(order):
            self.pool.report('C11', 'dataset_twin.split', f'split_{axis}:count', f'split_{axis}({by}) returned {len(parts)} parts for {len(order)} distinct values')
            return
        out = []
        for v, part in zip(order, parts):
            sem = None
            if src.sem is not None:
                sel = [i for i, x in enumerate(vals) if x == v]
                sem = deepcopy(src.sem)
                key = {'obs': 'rows', 'channel': 'cols', 'time': 'times'}[axis]
                sem[key] = [src.sem[key][i] for i in sel]
            out.append((part, sem))
        self._finish('split_' + axis, out, [src.sid], sig=(src.op, by, len(order)))

    def op_split_obs(self, o):
        return self._split(o, 'obs')

    def op_split_channel(self, o):
        return self._split(o, 'channel')

    def op_split_time(self, o):
        return self._split(o, 'time')

    def _subset(self, o, axis):
        src = self.pick(o)
        if src is None:
            return False
        obj = src.obj
        d = obj.obs_descriptors if axis == 'obs' else obj.channel_descriptors
        by = self._by(d, o['a'][0])
        if by is None:
            return False
        vals = normlist(d[by])
        distinct = self._first_appearance(vals)
        r = random.Random(o['a'][1])
        chosen = r.sample(distinct, 1 + o['a'][2] % min(3, len(distinct)))
        listed = list(chosen)
        if o['a'][3] % 4 == 0:
            listed = listed + [listed[0]]          # a value named twice still selects each matching item once
        if o['a'][4] % 3 == 0:
            ab = gen.absent_like(chosen, set(vals))
            if ab is not None:
                listed = listed + [ab]             # a value no item carries selects nothing (whatever it would truncate to)
                self.ctx.probe('absent_value_in_list')
        empty_case = False
        huge = any(isinstance(x, (int, np.integer)) and not isinstance(x, bool) and abs(int(x)) > 2 ** 52
                   for v_ in obj.obs_descriptors.values() if np.asarray(v_, dtype=object).ndim == 1 for x in v_)
        # (merging with an empty part returns integer labels as floats -- equal numbers, another type, not judged; identifiers
        #  beyond 2**53 would not survive that, so such families are left out of this step: see DESIGN 9.7)
        rowvalued = any(np.asarray(v_, dtype=object).ndim > 1 if not isinstance(v_, np.ndarray) else v_.ndim > 1 for v_ in obj.obs_descriptors.values())
        if (axis == 'obs' and o['a'][4] % 33 == 0 and not huge and not rowvalued      # (row-valued descriptors: an empty part has none)
                and len(listed) > len(chosen) + (1 if o['a'][3] % 4 == 0 else 0)):
            # only the value nobody carries: a legal selection that matches nothing (an empty dataset with the same
            # descriptors, which can be merged with others later without harming them)
            listed, chosen = [listed[-1]], []
            empty_case = True
        arg = chosen[0] if (len(chosen) == 1 and o['flag'] and len(listed) == 1) else (np.array(listed) if o['flag2'] else list(listed))
        guard = self.pool.plain_guard('subset_' + axis, value=arg)
        try:
            res = getattr(obj, 'subset_' + axis)(by, arg)
        except Exception as e:
            guard('raised')
            return self._raise('subset_' + axis, e)
        if empty_case:
            # the empty result is not kept for further operations; what matters is that it is empty and that merging it with
            # its source gives the source's rows back with all their labels
            guard()
            if res.n_obs != 0 or np.asarray(res.measurements).shape[0] != 0:
                self.pool.report('C11', 'dataset_twin.content', 'subset_obs:content:obs:absent-only',
                                 f'subset_obs({by}, {listed}) with a value no row carries returned {res.n_obs} rows')
                return
            from rsatoolbox.data.ops import merge_datasets
            try:
                merged = merge_datasets([src.obj, res])
            except Exception as e:
                return self._raise('merge_datasets:with-empty-part', e)
            self.ctx.probe('subset_matching_nothing_merged')
            self._finish('merge', [(merged, None if src.sem is None else deepcopy(src.sem))], [src.sid], sig=('with-empty-part',))
            return
        sem = None
        if src.sem is not None:
            sem = deepcopy(src.sem)
            key = 'rows' if axis == 'obs' else 'cols'
            sem[key] = [tok for tok, v in zip(src.sem[key], vals) if v in chosen]
        self._finish('subset_' + axis, [(res, sem)], [src.sid], sig=(src.op, by))
        guard()

    def op_subset_obs(self, o):
        return self._subset(o, 'obs')

    def op_subset_channel(self, o):
        return self._subset(o, 'channel')

    def op_subset_time(self, o):
        src = self.pick(o, kinds=('tdataset',))
        if src is None:
            return False
        by = 'onset' if ('onset' in src.obj.time_descriptors and o['flag']) else 'time'
        tv = [float(x) for x in src.obj.time_descriptors[by]]
        a, b = sorted([tv[o['a'][0] % len(tv)], tv[o['a'][1] % len(tv)]])
        if o['flag2'] and len(set(tv)) > 4:
            # a wide window: all but a few of the smallest / largest values
            dv = sorted(set(tv))
            a, b = dv[o['a'][2] % 3], dv[-1 - o['a'][3] % 3]
            dups = [v for v in dv if tv.count(v) > 1]
            if dups and o['a'][4] % 2:
                # window boundary right next to a repeated value: everything above it or everything below it
                d = dups[o['a'][5] % len(dups)]
                k = dv.index(d)
                if k + 1 < len(dv) and (o['a'][4] % 4 == 1 or k == 0):
                    a, b = dv[k + 1], dv[-1]
                elif k > 0:
                    a, b = dv[0], dv[k - 1]
        if o['a'][5] % 2 and float(a).is_integer() and float(b).is_integer():
            a, b = int(a), int(b)          # integer window bounds
        try:
            res = src.obj.subset_time(by, a, b)
        except Exception as e:
            return self._raise('subset_time', e)
        sem = None
        if src.sem is not None:
            sem = deepcopy(src.sem)
            sem['times'] = [t for t, x in zip(src.sem['times'], tv) if a <= x <= b]
            if sem.get('bins') is not None:
                sem['bins'] = [m for m, x in zip(src.sem['bins'], tv) if a <= x <= b]
        self._finish('subset_time', [(res, sem)], [src.sid], sig=(src.op, by, len(set(tv)) < len(tv)))

    def op_sort_by(self, o):
        t = self.pick(o)
        if t is None:
            return False
        by = self._by(t.obj.obs_descriptors, o['a'][0])
        if by is None:
            return False
        vals = normlist(t.obj.obs_descriptors[by])
        if len({type(v) for v in vals}) != 1:
            return False
        try:
            t.obj.sort_by(by)
        except Exception as e:
            return self._raise('sort_by', e)
        if t.sem is not None:
            order = sorted(range(len(vals)), key=lambda i: vals[i])
            t.sem['rows'] = [t.sem['rows'][i] for i in order]
        self.check(t, 'sort_by:' + t.kind)
        self.pool.sweep('sort_by', target=t.sid, inplace=True)
        self.ctx.behaviour('sort_by', t.kind, t.op, len(set(vals)) < len(vals))

    def op_redo_after_sort(self, o):
        """a value-returning op, then an in-place sort of its *source*, then the same op with the same arguments again:
        the second result must describe the object as it is now (no stale derived state)"""
        src = self.pick(o)
        if src is None:
            return False
        which = ['split_obs', 'split_channel', 'subset_obs', 'odd_even_split', 'time_as_observations', 'split_time',
                 'average_by'][o['a'][5] % 7]
        fn = getattr(self, 'op_' + which)
        o1 = {**o, 'sid': src.sid}
        if fn(o1) is False:
            return False
        o2 = {**o, 'sid': src.sid, 'a': [o['a'][4]] + o['a'][1:]}
        self.op_sort_by(o2)
        if not src.alive:
            return
        fn(o1)
        self.ctx.probe('redo_after_sort')

    def op_redo_after_relabel(self, o):
        """a selection / split by a grouping descriptor, then the user re-assigns that descriptor's values on the same
        object (the group names swap places), then the same operation with the same arguments again: the second result
        must go by the labels as they are now"""
        src = self.pick(o, sem_only=True)
        if src is None:
            return False
        which = ['split_obs', 'subset_obs', 'odd_even_split', 'average_by', 'split_channel', 'subset_channel'][o['a'][5] % 6]
        axis = 'channel' if 'channel' in which else 'obs'
        if which in ('odd_even_split', 'average_by') and src.kind != 'dataset':
            return False
        d = src.obj.obs_descriptors if axis == 'obs' else src.obj.channel_descriptors
        # only the grouping descriptors of the axis itself (identity descriptors and former time labels name the items)
        allowed = [k for k in (('cond', 'run') if axis == 'obs' else ('roi',)) if k in d and _scalar_valued(d[k])]
        if not allowed:
            return False
        by = allowed[o['a'][0] % len(allowed)]
        a0 = next((a for a in range(len(d) + 3) if self._by(d, a) == by), None)
        if a0 is None:
            return False
        o = {**o, 'a': [a0] + list(o['a'][1:])}
        cur = normlist(d[by])
        distinct = sorted(set(cur), key=lambda x: (str(type(x)), x))
        if len(distinct) < 2 or len({type(v) for v in cur}) != 1:
            return False
        fn = getattr(self, 'op_' + which)
        o1 = {**o, 'sid': src.sid}
        if fn(o1) is False or not src.alive or src.sem is None:
            return False
        f = dict(zip(distinct, distinct[::-1]))
        new = [f[v] for v in cur]
        d[by] = np.array(new) if isinstance(d[by], np.ndarray) else new
        tab = self.obs_tab if axis == 'obs' else self.ch_tab
        remap = dict(src.sem.get('remap') or {})
        old = remap.get((axis, by)) or {}
        labels = {norm(v[by]) for v in tab.values() if by in v}
        remap[(axis, by)] = {L: f.get(old.get(L, L), old.get(L, L)) for L in labels}
        src.sem = {**src.sem, 'remap': remap}
        self.check(src, 'relabel')
        for b in self.pool.slots:        # (an assignment to a descriptor is not among C12's documented in-place operations)
            if b.alive and b.sid != src.sid and fp_any(b.obj) != b.snap:
                b.snap, b.sem, b.alive = fp_any(b.obj), None, False
                self.ctx.probe('retired_after_relabel')
        src.snap = fp_any(src.obj)
        self.ctx.tick('op', op='relabel', axis=axis, by=by)
        if src.alive and src.sem is not None:
            fn(o1)
        self.ctx.probe('redo_after_relabel')

    def op_array_write_ds(self, o):
        t = self.pick(o)
        if t is None or t.obj.measurements.size == 0:
            return False
        m = t.obj.measurements
        idx = tuple(a % s for a, s in zip(o['a'], m.shape))
        try:
            m[idx] = 31337.5
        except ValueError:
            return False
        t.sem = None
        self.pool.sweep('array_write', target=t.sid, inplace=True)
        self.ctx.behaviour('array_write_ds', t.op)

    def op_copy_ds(self, o):
        src = self.pick(o)
        if src is None:
            return False
        try:
            res = src.obj.copy()
        except Exception as e:
            return self._raise('copy', e)
        prod = self._finish('copy', [(res, deepcopy(src.sem))], [src.sid], sig=(src.op,))
        keys = sorted(k for k in res.descriptors if k in ('sess', 'subj') and k not in res.obs_descriptors)
        if o['flag'] and keys and prod and prod[0].alive and prod[0].sem is not None and src.sem is not None:
            # what a copy is for: the copy is given another session / subject label (an entry of its dataset-level
            # descriptors is assigned); the rows of the source keep the label they had
            k = keys[o['a'][0] % len(keys)]
            old = res.descriptors[k]
            new = old + 'x' if isinstance(old, str) else old + 10
            res.descriptors[k] = new
            remap = dict(prod[0].sem.get('remap') or {})
            prev = remap.get(('obs', k)) or {}
            labels = {norm(v.get(k)) for v in self.obs_tab.values() if k in v}
            remap[('obs', k)] = {L: (new if norm(prev.get(L, L)) == norm(old) else prev.get(L, L)) for L in labels}
            prod[0].sem = {**prod[0].sem, 'remap': remap}
            from .fp import fp_any
            prod[0].snap = fp_any(res)
            self.check(prod[0], 'copy:relabelled')
            if fp_any(src.obj) != src.snap:
                self.pool.report('C11', 'dataset_twin.copy', 'copy:source-follows-copy:descriptors',
                                 f'after copy() the dataset-level descriptor {k!r} of the copy was set to {new!r}: the source now says '
                                 f'{src.obj.descriptors.get(k)!r} (it had {old!r})')
                src.snap, src.sem, src.alive = fp_any(src.obj), None, False
            self.ctx.probe('copy_then_relabelled')

    def op_merge(self, o):
        from rsatoolbox.data.ops import merge_datasets
        first = self.pick(o, sem_only=True)
        if first is None:
            return False
        cands = [s for s in self.data(sem_only=True) if s.kind == first.kind and s.sem['cols'] == first.sem['cols']
                 and s.sem['times'] == first.sem['times'] and s.sem.get('bins') == first.sem.get('bins')
                 and set(s.obj.obs_descriptors.keys()) == set(first.obj.obs_descriptors.keys())
                 and (s.sem.get('remap') or {}) == (first.sem.get('remap') or {})]
        # prefer the parts of one split (siblings) so that "merge of the parts = the original rows" is exercised
        fb = getattr(first, 'batch', None)
        sib = [s for s in {x.sid: x for x in cands + [first]}.values() if getattr(s, 'batch', None) == fb and s.op.startswith('split_obs')] if fb else []
        sib.sort(key=lambda s: s.sid)
        group = sib if (len(sib) > 1 and o['flag']) else [first] + [c for c in cands if c.sid != first.sid][: o['u'] % 3]
        if o['flag2'] and len(group) > 1:
            r = random.Random(o['a'][0])
            r.shuffle(group)
        try:
            if o['a'][4] % 5 == 0:
                import warnings
                from rsatoolbox.data.dataset import merge_subsets
                with warnings.catch_warnings():
                    warnings.simplefilter('ignore')
                    res = merge_subsets([s.obj for s in group])          # the deprecated spelling
            else:
                res = merge_datasets([s.obj for s in group])
        except Exception as e:
            return self._raise('merge_datasets', e)
        sem = deepcopy(group[0].sem)
        sem['rows'] = [tok for s in group for tok in s.sem['rows']]
        prod = self._finish('merge', [(res, sem)], [s.sid for s in group], sig=(len(group), len(sib) > 1 and o['flag']))
        if len(sib) > 1 and o['flag'] and prod and prod[0].sem is not None and len(sib) == fb[1]:
            parent = self.pool.slots[first.parents[0]] if first.parents else None
            if parent is not None and parent.sem is not None and Counter(prod[0].sem['rows']) != Counter(parent.sem['rows']):
                self.pool.report('C11', 'dataset_twin.merge', 'merge:not-the-original-rows',
                                 f'merging all parts of split_obs gives rows {sorted(Counter(prod[0].sem["rows"]).items())}, original has {sorted(Counter(parent.sem["rows"]).items())}')

    def op_odd_even_split(self, o):
        src = self.pick(o, kinds=('dataset',))
        if src is None:
            return False
        by = self._by(src.obj.obs_descriptors, o['a'][0])
        if by is None:
            return False
        vals = normlist(src.obj.obs_descriptors[by])
        order = self._first_appearance(vals)
        if len(order) < 2 or len({type(v) for v in vals}) != 1:
            return False
        try:
            odd, even = src.obj.odd_even_split(by)
        except Exception as e:
            return self._raise('odd_even_split', e)
        out = []
        for part, sel in ((odd, order[0::2]), (even, order[1::2])):
            sem = None
            if src.sem is not None:
                sem = deepcopy(src.sem)
                sem['rows'] = [tok for v in sel for tok, x in zip(src.sem['rows'], vals) if x == v]
            out.append((part, sem))
        self._finish('odd_even_split', out, [src.sid], order=('multiset', 'seq', 'seq'), sig=(src.op, by))

    def op_nested_odd_even_split(self, o):
        src = self.pick(o, kinds=('dataset',))
        if src is None:
            return False
        keys = sorted(k for k, v in src.obj.obs_descriptors.items() if _scalar_valued(v))
        if len(keys) < 2:
            return False
        l1 = keys[o['a'][0] % len(keys)]
        l2 = keys[o['a'][1] % len(keys)]
        v1 = normlist(src.obj.obs_descriptors[l1])
        v2 = normlist(src.obj.obs_descriptors[l2])
        if l1 == l2 or len({type(v) for v in v1}) != 1 or len({type(v) for v in v2}) != 1:
            return False
        # every level-1 partition needs >= 2 distinct level-2 values
        for a in set(v1):
            if len({y for x, y in zip(v1, v2) if x == a}) < 2:
                return False
        try:
            odd, even = src.obj.nested_odd_even_split(l1, l2)
        except Exception as e:
            return self._raise('nested_odd_even_split', e)
        out = []
        if src.sem is not None:
            rows_odd, rows_even = [], []
            for a in self._first_appearance(v1):
                idx = [i for i, x in enumerate(v1) if x == a]
                inner = self._first_appearance([v2[i] for i in idx])
                for k, b in enumerate(inner):
                    toks = [src.sem['rows'][i] for i in idx if v2[i] == b]
                    (rows_odd if k % 2 == 0 else rows_even).extend(toks)
            for part, rows in ((odd, rows_odd), (even, rows_even)):
                sem = deepcopy(src.sem)
                sem['rows'] = rows
                out.append((part, sem))
        else:
            out = [(odd, None), (even, None)]
        self._finish('nested_odd_even_split', out, [src.sid], order=('multiset', 'seq', 'seq'), sig=(src.op,))

    def op_bin_time(self, o):
        src = self.pick(o, kinds=('tdataset',), sem_only=True)
        if src is None or src.sem.get('bins') is not None:
            return False
        tv = np.asarray(src.obj.time_descriptors['time'], dtype=float)
        n = len(tv)
        r = random.Random(o['a'][0])
        idx = list(range(n))
        if o['flag']:
            r.shuffle(idx)         # non-contiguous / interleaved bins
        nb = 1 + o['a'][1] % n
        cuts = sorted(r.sample(range(1, n), nb - 1)) if nb > 1 else []
        groups = [idx[a:b] for a, b in zip([0] + cuts, cuts + [n])]
        if o['flag2'] and len(groups) > 1:
            groups = groups[:-1]   # bins need not cover all time points
        if o['a'][3] % 5 == 2 and len(groups) > 1:
            # sliding windows: every bin also takes the first time point of the next one (bins may overlap; each is the mean
            # of all the time points it lists)
            groups = [g + [groups[i_ + 1][0]] if i_ + 1 < len(groups) else list(g) for i_, g in enumerate(groups)]
            self.ctx.probe('overlapping_bins')
        bins = [np.array([tv[i] for i in g]) for g in groups]
        present = [np.array(b, copy=True) for b in bins]
        if o['a'][3] % 4 == 0:
            # bins defined on a longer time axis than the (cropped) data: a listed time point that is not recorded
            # contributes nothing to the mean of its bin
            j = o['a'][4] % len(bins)
            bins[j] = np.append(bins[j], float(max(tv)) + 1000.0 + j)
            self.ctx.probe('bin_lists_absent_time_point')
        if o['a'][3] % 8 == 1:
            # a bin none of whose time points was recorded (bins of the full recording applied to a cropped one): it has no
            # data -- NaN --, it is not filled from some other time point
            groups = groups + [[]]
            bins = bins + [np.array([float(max(tv)) + 2000.0, float(max(tv)) + 2001.0])]
            present = present + [np.array([])]          # (its label is the mean of its recorded time points: none, NaN)
            self.ctx.probe('bin_without_recorded_time_points')
        if len({len(b) for b in bins}) == 1 and o['a'][2] % 2:
            bins = np.array(bins)          # equal-sized bins as one 2-D array
        extra = [k for k in src.obj.time_descriptors if k != 'time']
        guard = self.pool.plain_guard('bin_time', bins=bins, **({'bin0': bins[0]} if isinstance(bins, list) else {}))
        try:
            res = src.obj.bin_time('time', bins)
        except Exception as e:
            guard('raised')
            if extra:
                return self._raise('bin_time:extra-time-descriptors', e)
            return self._raise('bin_time', e)
        sem = deepcopy(src.sem)
        sem['bins'] = [[src.sem['times'][i] for i in g] for g in groups]
        sem['times'] = [None] * len(groups)
        s = self.pool.add(res, 'tdataset', sem, 'bin_time', [src.sid])
        s.parent_dtype = np.zeros(0, dtype=src.obj.measurements.dtype)     # means of float32 data carry float32 rounding
        self._check_binned(s, present)
        if any(len(b) == 0 for b in present):
            s.alive = False          # (a dataset with an undefined time label is not taken further: later selections by time have no meaning on it)
        self.pool.sweep('bin_time', args=[src.sid], produced=[s.sid])
        guard()
        self.ctx.behaviour('bin_time', len(groups), o['flag'], o['flag2'])

    def _check_binned(self, slot, bins):
        """binned object: times are bin means; values are means over exactly the members"""
        obj, sem = slot.obj, slot.sem
        rows, cols, _ = self.tokens_nobin(obj)
        if rows != sem['rows'] or cols != sem['cols']:
            return self._fail(slot, 'C11', 'bin_time', 'content', f'rows/channels changed by bin_time')
        m = np.asarray(obj.measurements)
        if m.shape != (len(rows), len(cols), len(bins)):
            return self._fail(slot, 'C11', 'bin_time', 'shape', f'binned shape {m.shape}, expected {(len(rows), len(cols), len(bins))}')
        got_t = np.asarray(obj.time_descriptors['time'], dtype=float)
        exp_t = np.array([float(np.mean(b)) if len(b) else float('nan') for b in bins])
        if got_t.shape != exp_t.shape or not np.allclose(got_t, exp_t, rtol=1e-12, atol=1e-12, equal_nan=True):
            return self._fail(slot, 'C11', 'bin_time', 'bin', f'binned time labels {got_t.tolist()} != bin means {exp_t.tolist()}')
        for i, (o_, _) in enumerate(rows):
            for j, (c, _) in enumerate(cols):
                for k, mem in enumerate(sem['bins']):
                    if not mem:
                        if not np.isnan(m[i, j, k]):
                            return self._fail(slot, 'C11', 'bin_time', 'bin',
                                              f'bin {k} lists no recorded time point, yet cell obs {o_} channel {c} holds {m[i, j, k]!r} (no data: NaN)')
                        continue
                    exp = float(np.mean([self.vs * encd(o_, c, t) for t in mem]))
                    tol = 1e-6 if np.asarray(slot.parent_dtype if hasattr(slot, 'parent_dtype') else m).dtype == np.float32 else 1e-9
                    if abs(m[i, j, k] - exp) > tol * (1 + abs(exp)):
                        return self._fail(slot, 'C11', 'bin_time', 'bin',
                                          f'binned cell obs {o_} channel {c} bin {k} (member time ids {mem}) is {m[i, j, k]!r}; the mean of exactly its members is {exp}')
        slot.sem = None      # a binned dataset leaves the semantic layer (values are no longer single source cells)
        self.ctx.probe('semantic_checks')

    def tokens_nobin(self, obj):
        od, cd = obj.obs_descriptors, obj.channel_descriptors
        return ([(u, None) for u in normlist(od['ouid'])], [(u, None) for u in normlist(cd['cuid'])], None)

    def op_time_as_observations(self, o):
        src = self.pick(o, kinds=('tdataset',), sem_only=True)
        if src is None or src.sem.get('bins') is not None:
            return False
        by = 'time'
        uniq = [k for k, v in src.obj.time_descriptors.items() if k != 'time' and len(set(normlist(v))) == len(normlist(v))]
        if uniq and o['flag']:
            by = sorted(uniq)[o['a'][0] % len(uniq)]      # any descriptor that names every time point can indicate the time dimension
        try:
            if o['a'][1] % 4 == 0:
                import warnings
                with warnings.catch_warnings():
                    warnings.simplefilter('ignore')
                    res = src.obj.convert_to_dataset(by)             # the deprecated spelling
            elif by == 'time' and o['flag2']:
                res = src.obj.time_as_observations()
            else:
                res = src.obj.time_as_observations(by)
        except Exception as e:
            shape = 'x'.join(str(min(s, 2)) for s in src.obj.measurements.shape)
            return self._raise(f'time_as_observations[{shape}]', e)
        sem = {'rows': [(oo, t) for t in self._first_appearance(src.sem['times']) for (oo, _) in src.sem['rows']],
               'cols': list(src.sem['cols']), 'times': None, 'remap': src.sem.get('remap')}
        self._finish('time_as_observations', [(res, sem)], [src.sid], order=('multiset', 'seq', 'seq'),
                     sig=(src.op, tuple(min(s, 2) for s in src.obj.measurements.shape)))

    def op_time_as_channels(self, o):
        src = self.pick(o, kinds=('tdataset',), sem_only=True)
        if src is None or src.sem.get('bins') is not None:
            return False
        try:
            res = src.obj.time_as_channels()
        except Exception as e:
            return self._raise('time_as_channels', e)
        sem = {'rows': list(src.sem['rows']), 'cols': [(c, t) for (c, _) in src.sem['cols'] for t in src.sem['times']],
               'times': None, 'remap': src.sem.get('remap')}
        self._finish('time_as_channels', [(res, sem)], [src.sid], order=('seq', 'multiset', 'seq'),
                     sig=(src.op, tuple(min(s, 2) for s in src.obj.measurements.shape)))

    def op_df_roundtrip(self, o):
        from rsatoolbox.data import Dataset
        src = self.pick(o, kinds=('dataset',), sem_only=True)
        if src is None:
            return False
        names = normlist(src.obj.channel_descriptors.get('name', []))
        if len(names) != src.obj.n_channel or len(set(names)) != len(names) or src.obj.n_obs < 1:
            return False
        if any(tok[1] is not None for tok in src.sem['rows'] + src.sem['cols']):
            return False     # float time columns would be taken for channels by from_df: not admissible
        if not o['flag'] and src.obj.measurements.dtype.kind != 'f':
            return False     # from_df(channels=None) recognises channel columns by their float dtype
        if any(np.asarray(v, dtype=object).ndim > 1 for v in list(src.obj.obs_descriptors.values()) + list(src.obj.channel_descriptors.values())):
            return False     # a table column holds one scalar per row: row-valued descriptors have no DataFrame form
        if any(isinstance(v, (list, tuple, np.ndarray)) for v in src.obj.descriptors.values()):
            return False     # ... nor has a dataset-level descriptor that is a vector
        if not o['flag'] and (any(isinstance(x, (float, np.floating)) for v in src.obj.obs_descriptors.values() for x in v)
                              or any(isinstance(v, (float, np.floating)) for v in src.obj.descriptors.values())):
            return False     # from_df(channels=None) takes every float column for a channel: float labels not admissible
        chans = None
        if o['flag']:
            # the channel columns named explicitly: in frame order, in another order, or only some of them
            chans = list(names)
            var = o['a'][2] % 4
            if var in (1, 2) and len(chans) > 1:
                random.Random(o['a'][3]).shuffle(chans)
            if var in (2, 3) and len(chans) > 1:
                chans = chans[:max(1, len(chans) - 1 - o['a'][4] % 2)]
        try:
            df = src.obj.to_df(channel_descriptor='name')
            res = Dataset.from_df(df, channels=chans, channel_descriptor='name')
        except Exception as e:
            return self._raise('df_roundtrip', e)
        # channel identity travels through the unique channel names only
        try:
            back = normlist(res.channel_descriptors['name'])
            name2uid = {n: u for n, u in zip(names, normlist(src.obj.channel_descriptors['cuid']))}
            res.channel_descriptors['cuid'] = [name2uid[n] for n in back]
        except Exception as e:
            self.pool.report('C11', 'dataset_twin.descriptors', 'df_roundtrip:channels', f'df round trip lost the channel names: {e!r}')
            return
        sem = deepcopy(src.sem)
        sem['dropped'] = [('channel', 'roi')]
        if chans is not None and len(chans) < len(names):
            keep = {name2uid[n] for n in chans}
            sem['cols'] = [c for c in sem['cols'] if c[0] in keep]
        self._finish('df_roundtrip', [(res, sem)], [src.sid], order=('multiset', 'multiset', 'seq'), sig=(src.op, o['flag']))

    def op_to_df_columns(self, o):
        """to_df alone: one data column per channel, labelled by the chosen channel descriptor (labels may repeat) and holding
        that channel's measurements, whatever from_df could later make of it"""
        src = self.pick(o, kinds=('dataset',))
        if src is None:
            return False
        cds = sorted(k for k, v in src.obj.channel_descriptors.items() if _scalar_valued(v))
        if not cds:
            return False
        cd = cds[o['a'][0] % len(cds)]
        if any(np.asarray(v, dtype=object).ndim > 1 for v in src.obj.obs_descriptors.values()):
            return False
        if any(isinstance(v, (list, tuple, np.ndarray)) for v in src.obj.descriptors.values()):
            return False
        try:
            df = src.obj.to_df(channel_descriptor=cd)
        except Exception as e:
            return self._raise('to_df', e)
        labels = normlist(src.obj.channel_descriptors[cd])
        n_obs_cols = len(src.obj.obs_descriptors) + len(src.obj.descriptors)
        vals = df.values
        ok = vals.shape[1] >= len(labels) and normlist(list(df.columns[:len(labels)])) == labels
        if ok:
            m = np.asarray(src.obj.measurements)
            got = np.asarray(df.iloc[:, :len(labels)].values, dtype=float)
            ok = got.shape == m.shape and np.array_equal(got, m.astype(float), equal_nan=True)
        if not ok:
            self.pool.report('C11', 'dataset_twin.df', 'to_df:columns',
                             f'to_df(channel_descriptor={cd!r}): the first {len(labels)} columns {list(df.columns)[:len(labels) + 2]} '
                             f'are not the {len(labels)} channels labelled {labels} with their measurements (frame shape {df.shape})')
        self.pool.sweep('to_df', args=[src.sid])
        self.ctx.behaviour('to_df_columns', cd, len(set(labels)) < len(labels))

    def op_average_by(self, o):
        from rsatoolbox.data.computations import average_dataset_by
        src = self.pick(o, kinds=('dataset',), sem_only=True)
        if src is None:
            return False
        by = self._by(src.obj.obs_descriptors, o['a'][0])
        if by is None:
            return False
        vals = normlist(src.obj.obs_descriptors[by])
        if len({type(v) for v in vals}) != 1:
            return False
        try:
            avg, uniq, n_obs = average_dataset_by(src.obj, by)
        except Exception as e:
            return self._raise('average_dataset_by', e)
        uniq = normlist(uniq)
        m = np.asarray(src.obj.measurements)
        if sorted(map(str, uniq)) != sorted(map(str, set(vals))) or len(uniq) != len(set(vals)):
            self.pool.report('C11', 'dataset_twin.average', 'average_dataset_by:labels', f'labels {uniq} vs distinct values {sorted(set(vals), key=str)}')
        else:
            for k, lab in enumerate(uniq):
                rows = [i for i, v in enumerate(vals) if v == lab]
                exp = m[rows].mean(axis=0)
                if not np.allclose(avg[k], exp, rtol=1e-12, atol=1e-9) or n_obs[k] != len(rows):
                    self.pool.report('C11', 'dataset_twin.average', 'average_dataset_by:values',
                                     f'average for label {lab!r} is {np.asarray(avg[k]).tolist()} (n={n_obs[k]}); mean of exactly the {len(rows)} rows carrying it is {exp.tolist()}')
                    break
        self.pool.sweep('average_dataset_by', args=[src.sid])
        self.ctx.behaviour('average_by', src.op, by, uniq != sorted(uniq, key=str))

    def op_measurements_tensor(self, o):
        src = self.pick(o, kinds=('dataset',), sem_only=True)
        if src is None:
            return False
        by = self._by(src.obj.obs_descriptors, o['a'][0])
        if by is None:
            return False
        vals = normlist(src.obj.obs_descriptors[by])
        cnt = Counter(vals)
        if len(set(cnt.values())) != 1 or len({type(v) for v in vals}) != 1:
            return False      # needs a balanced design
        try:
            tensor, uniq = src.obj.get_measurements_tensor(by)
        except Exception as e:
            return self._raise('get_measurements_tensor', e)
        uniq = normlist(uniq)
        m = np.asarray(src.obj.measurements)
        ok = list(uniq) == self._first_appearance(vals)
        if ok:
            for k, lab in enumerate(uniq):
                rows = [i for i, v in enumerate(vals) if v == lab]
                if not np.array_equal(tensor[k], m[rows].T):
                    ok = False
                    break
        if not ok:
            self.pool.report('C11', 'dataset_twin.tensor', 'get_measurements_tensor:values', f'tensor slices do not hold the rows of each {by} value in order of first appearance')
        self.pool.sweep('get_measurements_tensor', args=[src.sid])
        self.ctx.behaviour('measurements_tensor', src.op)


# ------------------------------------------------------------------------------------------------ producers (C12)
def _prec(n, salt):
    """a precision matrix as np.linalg.inv leaves it: symmetric only up to round-off"""
    from .kernel import H
    m = np.array([[(H('prec', salt, i, j) % 17) / 16.0 for j in range(n)] for i in range(n)])
    return np.linalg.inv(m @ m.T + n * np.eye(n))


def _argfp(x):
    """bitwise fingerprint of a (nested) argument that is not a pool object"""
    if x is None:
        return None
    if isinstance(x, np.ndarray):
        return ('a', x.shape, str(x.dtype), x.tobytes())
    if isinstance(x, dict):
        return ('d', tuple((repr(k), _argfp(v)) for k, v in x.items()))
    if isinstance(x, (list, tuple)):
        return ('l', type(x).__name__, tuple(_argfp(v) for v in x))
    return ('o', repr(x))


def _add_data_producers():
    def op_calc_rdm(self, o):
        """RDM calculation / noise estimation on a dataset: arguments must stay untouched (C12)"""
        from rsatoolbox.rdm import calc_rdm, calc_rdm_movie
        from rsatoolbox.rdm.calc_unbalanced import calc_rdm_unbalanced
        from rsatoolbox.data import noise as N
        src = self.pick(o)
        if src is None:
            return False
        obj = src.obj
        methods = ['euclidean', 'correlation', 'mahalanobis', 'crossnobis', 'poisson', 'poisson_cv']
        method = methods[o['a'][0] % len(methods)]
        variant = o['a'][1] % 6
        cvd = 'run' if o['flag'] else None
        name = f'calc_rdm[{method}]'
        try:
            if variant == 0 and src.kind == 'tdataset':
                name = f'calc_rdm_movie[{method}]'
                kw = {}
                tvals = list(np.asarray(obj.time_descriptors['time']).tolist())
                if o['a'][3] % 2 == 0 and len(tvals) >= 2:
                    kw['bins'] = [np.array(tvals[i:i + 2]) for i in range(0, len(tvals) - len(tvals) % 2, 2)]      # the movie over bins of two frames
                    name = f'calc_rdm_movie[{method},bins]'
                if o['a'][3] % 3 == 0:
                    kw['unbalanced'] = True
                calc_rdm_movie(obj, method=method, descriptor=None if (o['a'][5] % 4 == 0 and method not in ('crossnobis', 'poisson_cv')) else 'cond',
                               cv_descriptor=cvd, **kw)
            elif src.kind == 'tdataset':
                return False
            elif variant == 1:
                name = f'calc_rdm_unbalanced[{method}]'
                calc_rdm_unbalanced(obj, method=method, descriptor=None if o['a'][5] % 3 == 0 else 'cond', cv_descriptor=cvd)
            elif variant == 2:
                name = 'noise[cov/prec]'
                nok = 0
                for call in (lambda: N.cov_from_measurements(obj, obs_desc='cond', method=['shrinkage_eye', 'shrinkage_diag', 'diag', 'full'][o['a'][2] % 4]),
                             lambda: N.prec_from_measurements(obj, obs_desc='cond', method='shrinkage_eye'),
                             lambda: N.cov_from_unbalanced(obj, obs_desc='cond'),
                             lambda: N.prec_from_unbalanced(obj, obs_desc='cond'),
                             lambda: N.cov_from_measurements(obj, obs_desc='cond', dof=max(1, obj.n_obs - 2))):
                    try:
                        call()
                        nok += 1
                    except (ImportError, NameError):
                        raise
                    except Exception:
                        pass
                self.ctx.probe('noise_estimators_ok', nok)
                if nok == 0:
                    raise ValueError('no noise estimator accepted the data')
            elif variant == 3:
                name = f'calc_rdm[list,{method}]'
                calc_rdm([obj, obj.copy()], method=method, descriptor='cond', cv_descriptor=cvd)
            else:
                noise = None
                if method in ('mahalanobis', 'crossnobis') and o['flag2']:
                    nk = o['a'][3] % 4
                    folds = len(set(normlist(obj.obs_descriptors['run']))) if cvd else 0
                    if nk == 0 or method == 'mahalanobis' or folds < 2:
                        noise = _prec(obj.n_channel, o['a'][4]) if nk else np.eye(obj.n_channel) * 2.0
                    elif nk == 1:
                        noise = [_prec(obj.n_channel, o['a'][4] + f) for f in range(folds)]          # one precision per fold
                    elif nk == 2:
                        noise = np.array([_prec(obj.n_channel, o['a'][4] + f) for f in range(folds)])
                    else:
                        noise = {f: _prec(obj.n_channel, o['a'][4] + f) for f in range(folds)}
                    name += f'+noise{nk}'
                watched = _argfp(noise)
                try:
                    desc_arg = None if (o['a'][5] % 4 == 0 and method not in ('crossnobis', 'poisson_cv')) else 'cond'      # None: every observation its own pattern
                    r_ = calc_rdm(obj, method=method, descriptor=desc_arg, cv_descriptor=cvd, noise=noise)
                    # the RDMs that come back are the caller's to re-order: documented in-place operations on the result do
                    # not reach the dataset they were computed from
                    if r_.n_cond > 1:
                        r_.reorder(list(range(r_.n_cond))[::-1])
                        keys_ = sorted(k for k in r_.pattern_descriptors if k != 'index' and _scalar_valued(r_.pattern_descriptors[k]))
                        if keys_:
                            try:
                                r_.sort_by(**{keys_[0]: 'alpha'})
                            except Exception:
                                pass
                        name += '+reorder'
                finally:
                    if _argfp(noise) != watched:
                        self.pool.report('C12', 'bystander', f'bystander:{name.split("+")[0]}:argument:noise',
                                         f'{name}: the noise argument ({type(noise).__name__}) handed to calc_rdm was changed by the call')
                    self.ctx.probe('noise_argument_watched')
        except (ImportError, NameError) as e:
            raise HarnessError(f'producer {name}: {e!r}')
        except Exception:
            self.ctx.probe('producer_raised:' + name.split('[')[0])
        else:
            self.ctx.probe('producer_ok:' + name.split('[')[0])
        self.pool.sweep(name, args=[src.sid])
        self.ctx.behaviour(name, cvd, src.op)
    DataOps.op_calc_rdm = op_calc_rdm


_add_data_producers()
