"""The object-pool machine: a pool of live library objects, each paired with (a) a snapshot fingerprint (what C12 and
C16 compare against) and (b) for identity-encoded objects a semantic twin (what C10/C11 compare against); a seeded
stream of operations naming operands by pool slot; after EVERY operation EVERY live object is compared with its twin.

Attribution (purely syntactic): mismatch on the object the operation returned or was called on -> C10 (RDMs) / C11
(datasets); on any other live object (argument of a value-returning op, or unrelated bystander) -> C12; on an object that
came through a file -> C16.  A machine instance reports only the violations attributed to the property it runs for; the
others are counted as probes, the damaged twin is resynchronised and the object leaves the semantic layer."""
from __future__ import annotations
from collections import Counter

import numpy as np

from .kernel import HarnessError
from .fp import fp_any, diff_fields
from .gen import enc, norm, normlist
from .twins.rdms_ref import check_assoc, uid_seqs


class Slot:
    def __init__(self, sid, obj, kind, sem, op, parents, via_file=False):
        self.sid, self.obj, self.kind, self.sem = sid, obj, kind, sem
        self.op, self.parents = op, list(parents)
        self.snap = fp_any(obj)
        self.via_file = via_file
        self.alive = True


class Pool:
    def __init__(self, ctx, prop):
        self.ctx, self.prop = ctx, prop
        self.slots = []
        self.tables = None            # (rdm_tab, pat_tab, nan_cells) of the RDMs family
        self.value_fn = enc
        self.sem_checkers = {}        # kind -> (callable(slot, opname, prop=...), semantic property)

    # ------------------------------------------------------------------ slots / provenance
    def add(self, obj, kind, sem, op, parents=(), via_file=False):
        s = Slot(len(self.slots), obj, kind, sem, op, parents, via_file)
        self.slots.append(s)
        return s

    def of_kind(self, *kinds):
        return [s for s in self.slots if s.alive and s.kind in kinds]

    def ancestors(self, s, depth=0):
        out = set()
        for p in s.parents:
            out.add(p)
            if depth < 50:
                out |= self.ancestors(self.slots[p], depth + 1)
        return out

    def relation(self, b, target, args):
        """relation of bystander b to the op's target slot: direct parent/child links are named with the producing op;
        longer connections are named by the set of producer ops on the shortest derivation path between the two"""
        if target is not None:
            t = self.slots[target]
            if b.sid in t.parents:
                return f'source-of-target[{t.op}]'
            if target in b.parents:
                return f'derived-from-target[{b.op}]'
            path = self._path_ops(b.sid, target)
            if path is not None:
                return 'linked[' + '|'.join(sorted(set(path))) + ']'
        if b.sid in args:
            return 'argument'
        for a in args:
            path = self._path_ops(b.sid, a)
            if path is not None:
                return 'linked-to-argument[' + '|'.join(sorted(set(path))) + ']'
        return 'unrelated'

    def _path_ops(self, x, y):
        """ops labelling the edges of the shortest undirected path x..y in the derivation graph (None if disconnected)"""
        adj = {}
        for s in self.slots:
            for p in s.parents:
                adj.setdefault(s.sid, []).append((p, s.op))
                adj.setdefault(p, []).append((s.sid, s.op))
        seen = {x: []}
        frontier = [x]
        while frontier:
            nxt = []
            for n in frontier:
                for m, op in adj.get(n, []):
                    if m not in seen:
                        seen[m] = seen[n] + [op]
                        if m == y:
                            return seen[m]
                        nxt.append(m)
            frontier = nxt
        return None

    # ------------------------------------------------------------------ reporting with attribution
    def report(self, prop, check, signature, message):
        """returns True if tolerated (other property / known finding) -> caller resynchronises"""
        if prop != self.prop:
            self.ctx.probe(f'mismatch_attributed_to_{prop}')
            return True
        return self.ctx.violation(check, signature, message)

    # ------------------------------------------------------------------ the caller's own plain arguments (C12)
    def plain_guard(self, opname, **named):
        """the caller's own lists / arrays handed to an operation (values to select, a new order, a permutation, bins):
        unchanged by the call, and not wired into any object -- the caller reusing its list afterwards must not reach a
        result.  Returns the function to call after the operation ('returned' / 'raised')."""
        from .fp import fp_value
        if self.prop != 'C12':
            return lambda outcome='returned': None       # (the argument clause belongs to C12)
        held = {k: v for k, v in named.items() if isinstance(v, (list, np.ndarray)) and len(v) > 0}

        def snap(v):
            return (type(v).__name__, getattr(v, 'dtype', None), fp_value(v))
        snaps = {k: snap(v) for k, v in held.items()}

        def after(outcome='returned'):
            for k, v in held.items():
                if snap(v) != snaps[k]:
                    self.report('C12', 'plain_argument', f'argument-changed:{opname}:{k}:{outcome}',
                                f'{opname} changed the caller\'s {k} from {str(snaps[k][2])[:200]} to {str(fp_value(v))[:200]}')
                else:
                    self.ctx.probe('plain_argument_kept:' + opname)
            if outcome != 'returned':
                return
            edited = False
            for k, v in held.items():
                try:
                    if isinstance(v, np.ndarray):
                        if len(v) > 1:
                            v[...] = v[::-1].copy()
                            edited = True
                    elif len(v) > 1:
                        v.reverse()
                        edited = True
                    else:
                        v.append(v[0])
                        edited = True
                except (ValueError, TypeError):
                    pass          # read-only array
            self._n_edits = getattr(self, '_n_edits', 0) + 1
            if edited and self._n_edits % 2 == 0:
                self.sweep(f'{opname}:caller-edits-own-argument')
                self.ctx.probe('caller_edit_swept:' + opname)
        return after

    # ------------------------------------------------------------------ after-op sweep over bystanders
    def sweep(self, opname, target=None, args=(), inplace=False, mut_class='none', produced=()):
        """compare every live object except the in-place target and freshly produced slots with its snapshot"""
        skip = set(produced)
        if inplace and target is not None:
            skip.add(target)
        for b in self.slots:
            if not b.alive or b.sid in skip:
                continue
            cur = fp_any(b.obj)
            if cur != b.snap:
                fields = diff_fields(b.snap, cur)
                rel = self.relation(b, target, args)
                fclass = sorted({f.split('.')[-1] for f in fields})
                sig = f'bystander:{opname}:{rel}:{"+".join(fclass)}'
                prop = 'C16' if (opname.startswith('save') or opname.startswith('load')) else 'C12'
                msg = (f'after {opname} (target slot {target}, args {list(args)}), the {b.kind} in slot {b.sid} '
                       f'(made by {b.op} from {b.parents}) changed in {fields}: relation {rel}')
                self.report(prop, 'bystander', sig, msg)
                # an in-place op on one object that leaves *another* object's values and labels inconsistent also breaks
                # the structural property itself (C10: "in-place operations change only the object they are called on";
                # C11: "each retained row keeps exactly the descriptor values it had"): judge the bystander's own twin
                chk = self.sem_checkers.get(b.kind)
                if chk is not None and b.sem is not None and prop == 'C12':
                    chk[0](b, f'bystander-after-{opname}[{rel.split("[")[0]}]', prop=chk[1])
                b.snap = cur           # resynchronise after a tolerated corruption
                b.sem = None           # retire the object from the semantic layer ...
                b.alive = False        # ... and from further use as an operand (a corrupted object cascades)
                self.ctx.probe('bystander_resynced')
            self.ctx.probe('bystander_checked')
        if inplace and target is not None:
            t = self.slots[target]
            t.snap = fp_any(t.obj)

    # ------------------------------------------------------------------ semantic check of an RDMs slot
    def tables_for(self, sem):
        """reference tables for one object: where its grouping labels were re-assigned by the user (a renaming of the
        groups, sem['remap']), the expected labels follow"""
        rdm_tab, pat_tab, nan_cells = self.tables
        remap = (sem or {}).get('remap')
        if remap:
            def _re(tab, axis):
                return {u: {k: (remap[(axis, k)].get(norm(v), v) if (axis, k) in remap else v) for k, v in dd.items()}
                        for u, dd in tab.items()}
            rdm_tab, pat_tab = _re(rdm_tab, 'rdm'), _re(pat_tab, 'pattern')
        return rdm_tab, pat_tab, nan_cells

    def check_rdms(self, slot, opname, order=('seq', 'seq'), prop='C10', ignore_pdesc=False):
        """compare the object with its semantic twin. order per axis: 'seq' or 'multiset'"""
        sem = slot.sem
        if sem is None:
            return
        obj = slot.obj
        rdm_tab, pat_tab, nan_cells = self.tables_for(sem)
        try:
            ru, cu = uid_seqs(obj)
        except KeyError as e:
            if self.report(prop, 'rdms_twin.descriptors', f'{opname}:descriptors', f'{opname}: uid descriptor lost ({e!r})'):
                slot.sem = None
            return
        for axis, got, exp, mode in (('rdm', ru, sem['ru'], order[0]), ('pattern', cu, sem['cu'], order[1])):
            bad = (got != exp) if mode == 'seq' else (Counter(got) != Counter(exp))
            if bad:
                kind = 'order' if Counter(got) == Counter(exp) else 'content'
                if self.report(prop, 'rdms_twin.' + kind, f'{opname}:{kind}:{axis}',
                               f'{opname}: result has {axis} uids {got}, expected {"sequence" if mode == "seq" else "multiset"} {exp}'):
                    slot.sem = None
                return
        sem['ru'], sem['cu'] = ru, cu
        missing = set(nan_cells) | set(sem.get('missing', ()))
        probs = check_assoc(obj, rdm_tab, pat_tab, missing, value_fn=self.value_fn,
                            check_desc=True, ignore_keys=('index',) + tuple(sem.get('dropped_keys', ())))
        if probs:
            clause, msg = probs[0]
            if clause == 'descriptors' and sem.get('desc_only') and 'pattern' in msg:
                pass
            if self.report(prop, 'rdms_twin.' + clause, f'{opname}:{clause}', f'{opname}: {msg}'):
                slot.sem = None
            return
        self.ctx.probe('semantic_checks')
