"""Seeded generators for RDM stacks (identity-encoded values) and helpers to decode them.

Every RDM and condition carries a `uid` descriptor; each dissimilarity encodes the identity of its
source cell: value(r,a,b) = 1000*r + 31*min(a,b) + max(a,b) + 0.5 (exact in binary floating point),
so every value read back is attributable to exactly one (RDM uid, condition uid pair)."""
from __future__ import annotations
import numpy as np


def enc(r, a, b):
    lo, hi = (a, b) if a <= b else (b, a)
    return 1000.0 * r + 31.0 * lo + hi + 0.5


def enc2(r, a, b):
    """integer-valued variant (odd integers) for stacks held in an integer dtype"""
    return 2 * enc(r, a, b)


def enc_wide(r, a, b):
    """identity encoding for large objects (uids up to 999)"""
    lo, hi = (a, b) if a <= b else (b, a)
    return 1000000.0 * r + 1000.0 * lo + hi + 0.5


def _negating(fn):
    """some entries negative (cross-validated distance estimates are): every third (r + a + b) keeps its sign"""
    def f(r, a, b):
        v = fn(r, a, b)
        return v if (r + min(a, b) + max(a, b)) % 3 == 0 else -v
    return f


def _zeroing(fn):
    """some pairs of *different* conditions are exactly 0 apart (categorical model RDMs, identical patterns): every fifth
    (r + 2a + 2b); such an entry is a value like any other, not a missing one"""
    def f(r, a, b):
        return 0.0 if (r + 2 * min(a, b) + 2 * max(a, b)) % 5 == 0 else fn(r, a, b)
    return f


def _infing(fn):
    """some pairs are infinitely far apart (a log-ratio of zero counts, a distance with a zero variance): every eleventh
    (r + 3a + 3b); +inf is a value like any other"""
    def f(r, a, b):
        return float('inf') if (r + 3 * min(a, b) + 3 * max(a, b)) % 11 == 0 else fn(r, a, b)
    return f


_VFN = {}


def value_fn_of(spec):
    if spec.get('wide'):
        return enc_wide
    key = (spec.get('dtype') == 'int64' or bool(spec.get('enc2')), bool(spec.get('neg')), bool(spec.get('zeros')),
           bool(spec.get('infs')) and not (spec.get('dtype') == 'int64' or bool(spec.get('enc2'))))
    if key not in _VFN:
        base = enc2 if key[0] else enc
        base = _negating(base) if key[1] else base
        base = _zeroing(base) if key[2] else base
        _VFN[key] = _infing(base) if key[3] else base
    return _VFN[key]


def dec(v):
    """inverse of enc -> (r, lo, hi) or None"""
    if v is None or not np.isfinite(v):
        return None
    x = v - 0.5
    if x != int(x):
        return None
    x = int(x)
    r, rest = divmod(x, 1000)
    lo, hi = divmod(rest, 31)
    if not (0 <= lo < hi <= 30):
        return None
    return r, lo, hi


def norm(v):
    """normalise a descriptor value for comparison"""
    if isinstance(v, np.generic):
        v = v.item()
    if isinstance(v, bytes):
        v = v.decode()
    if isinstance(v, np.ndarray):
        return [norm(x) for x in v.tolist()]
    if isinstance(v, (list, tuple)):
        return [norm(x) for x in v]
    if isinstance(v, float) and v != v:
        return 'NaN'
    return v


def absent_like(chosen, present):
    """a value that no item carries, but which would turn into the label of an item that was *not* asked for if it were
    truncated or cast to the width / type of the stored labels ('c13' -> 'c130' with 3-character labels, 3 -> 3.5);
    falls back to a value derived from a chosen label.  None if there is none"""
    present = list(present)
    others = [x for x in present if x not in chosen] or list(chosen)
    strs = [x for x in others if isinstance(x, str)]
    if strs:
        w = max(len(x) for x in present if isinstance(x, str))
        longest = [x for x in strs if len(x) == w] or strs
        c = sorted(longest)[0] + '0'
    else:
        nums = [x for x in others if isinstance(x, (int, float)) and not isinstance(x, bool)]
        if not nums:
            return None
        v = sorted(nums)[0]
        if isinstance(v, int) and abs(v) > 2 ** 52:
            c = max(nums) + 7        # (identifiers too large for a float: an absent value is another integer)
        else:
            c = v + 0.5 if isinstance(v, int) else v + 0.125
    return None if c in present else c


def normlist(seq):
    return [norm(x) for x in list(seq)]


def group_labels(rng, n, kind, typ):
    """returns list of n group labels"""
    if kind == 'unique':
        labs = list(range(n))
        rng.shuffle(labs)
    elif kind == 'allsame':
        labs = [0] * n
    else:  # 'groups': uneven repeated groups
        g = rng.randint(1, max(1, n - 1)) if n > 1 else 1
        labs = list(range(g)) + [rng.randrange(g) for _ in range(n - g)]
        rng.shuffle(labs)
    if typ == 'str':
        # lexicographic order differs from numeric order ('g10' < 'g2')
        labs = ['g%d' % (x * 7 % 13 + (10 if x % 2 else 0)) if kind != 'allsame' else 'g' for x in labs]
        # keep distinctness of distinct ints
    return labs


def _str_labels(ints, uni=False, near=False):
    table = {}
    out = []
    for x in ints:
        if x not in table:
            table[x] = 'g%d' % (len(table) * 9 + 2) if len(table) % 2 == 0 else 'G%d' % (len(table) * 3 + 10)
            if uni and len(table) % 3 == 0:
                table[x] = 'ü' + table[x]
            if near and len(table) == 2:
                # two different labels that look alike: the first one with a trailing blank / in another case
                first = next(iter(table.values()))
                table[x] = first + ' ' if near == 'blank' else first.swapcase()
        out.append(table[x])
    return out


def gen_grouping(rng, n, kinds=('unique', 'groups', 'allsame'), allow_allsame=True, typ=None, fewdups=0.25, huge_ok=True):
    kind = rng.pick([k for k in kinds if allow_allsame or k != 'allsame'])
    typ = typ or rng.pick(['int', 'str', 'int', 'str', 'float'])
    cont = rng.pick(['list', 'array'])
    if kind == 'unique':
        labs = list(range(n))
        rng.shuffle(labs)
        labs = [x * 3 + 1 for x in labs]
    elif kind == 'allsame':
        labs = [5] * n
    else:
        g = rng.randint(1, max(1, n - 1)) if n > 1 else 1
        if n > 3 and rng.chance(fewdups):
            g = max(1, n - rng.randint(1, 2))          # mostly unique with one or two repeated values
        labs = list(range(g)) + [rng.randrange(g) for _ in range(n - g)]
        if rng.chance(0.75):
            rng.shuffle(labs)                          # else: the repeats sit together at the end
        labs = [x * 2 + 3 for x in labs]
    if typ == 'str':
        labs = _str_labels(labs, uni=rng.chance(0.2), near=rng.pick([False, False, False, False, 'blank', 'case']))
    elif typ == 'int' and rng.chance(0.08) and huge_ok:
        # identifiers beyond 2**53 (time-stamp coded trial ids): neighbours are different labels, also where a float would
        # not tell them apart
        labs = [9007199254740993 + x for x in labs]
    elif typ == 'int' and rng.chance(0.3):
        # labels that include zero and negative numbers (falsy / sign-sensitive handling)
        ds = sorted(set(labs))
        if rng.chance(0.5):
            lo = ds[len(ds) // 2]
            labs = [x - lo for x in labs]
        else:
            # consecutive codes around zero (sessions coded -2..2): neighbours such as -1 and -2 are different groups
            code = {v: i - len(ds) // 2 - 1 for i, v in enumerate(ds)}
            labs = [code[x] for x in labs]
    elif typ == 'float':
        # fractional labels; sometimes onset-like values that are close to each other relative to their magnitude
        labs = [1.7e9 + 2.5 * x for x in labs] if rng.chance(0.35) else [x + 0.5 for x in labs]
    out = {'values': labs, 'container': cont, 'kind': kind, 'type': typ}
    if typ == 'int' and cont == 'array' and all(isinstance(x, int) and 0 <= x < 200 for x in labs) and rng.chance(0.3):
        out['adtype'] = rng.pick(['uint8', 'uint16', 'int8', 'int32'])      # narrow / unsigned integer label arrays
    return out


def gen_rdms_spec(rng, n_rdm=(1, 6), n_cond=(3, 9), nan_prob=0.25, groupings=True,
                  allow_allsame=True, kinds=('unique', 'groups', 'allsame'), dtypes=False):
    nr = rng.randint(*n_rdm)
    nc = rng.randint(*n_cond)
    rdm_uids = rng.sample(range(1, 90), nr)
    cond_uids = rng.sample(range(0, 31), nc)
    spec = {'rdm_uids': rdm_uids, 'cond_uids': cond_uids,
            'rdm_desc': {}, 'pat_desc': {}, 'nan_cells': [], 'measure': rng.pick(['euclidean', None, 'corr']),
            'descriptors': {'session': rng.pick(['s1', 7, 'ü']) if rng.chance(0.5) else 'a'}}
    if groupings:
        spec['rdm_desc']['grp'] = gen_grouping(rng, nr, kinds, allow_allsame)
        spec['pat_desc']['grp'] = gen_grouping(rng, nc, kinds, allow_allsame)
    if rng.chance(0.7):
        spec['rdm_desc']['extra'] = {'values': ['x%d' % u for u in rdm_uids], 'container': rng.pick(['list', 'array'])}
    if rng.chance(0.7):
        spec['pat_desc']['extra'] = {'values': ['c%d' % u for u in cond_uids], 'container': rng.pick(['list', 'array'])}
    if rng.chance(0.45):
        # a strictly increasing numeric descriptor held as ndarray (positions, onsets ...): unique and sorted
        spec['pat_desc']['pos'] = {'values': [10 * (i + 1) + 5 for i in range(nc)], 'container': 'array', 'kind': 'unique', 'type': 'int'}
    if rng.chance(0.25):
        # descriptors with one *row* per item (coordinates, feature vectors): 2-D arrays
        spec['pat_desc']['xyz'] = {'values': [[float(u), u + 0.5] for u in cond_uids], 'container': 'array'}
    if rng.chance(0.2):
        spec['rdm_desc']['roi_xyz'] = {'values': [[float(u), u * 2.0, 1.0] for u in rdm_uids], 'container': 'array'}
    if dtypes and rng.chance(0.25):
        spec['neg'] = True
    if dtypes and rng.chance(0.15):
        spec['zeros'] = True
    if dtypes and rng.chance(0.1):
        spec['infs'] = True
    if dtypes and rng.chance(0.15):
        # a hand-kept list of labels of mixed types (run numbers and names): each item keeps its own value, type included
        spec['rdm_desc']['mixed'] = {'values': [u if u % 2 else 'm%d' % u for u in rdm_uids], 'container': 'list'}
        spec['pat_desc']['mixed'] = {'values': [u if u % 2 else 'k%d' % u for u in cond_uids], 'container': 'list'}
    if dtypes and rng.chance(0.12) and nr > 1:
        # a user-supplied 'index' for the RDMs (session number per subject ...): values repeat and are not positional
        spec['rdm_desc']['index'] = {'values': [i % max(1, nr // 2) for i in range(nr)], 'container': rng.pick(['list', 'array'])}
    if dtypes:
        spec['dtype'] = rng.pick(['float64', 'float64', 'float64', 'int64', 'float32'])
    if rng.chance(nan_prob) and nc >= 4 and spec.get('dtype') != 'int64':
        for _ in range(rng.randint(1, 2)):
            i, j = sorted(rng.sample(range(nc), 2))
            r = rng.randrange(nr)
            spec['nan_cells'].append([r, i, j])
    return spec


def _container(d):
    v = d['values']
    if d.get('container') == 'array':
        return np.array(v, dtype=d['adtype']) if d.get('adtype') else np.array(v)
    return list(v)


def build_rdms(spec, value_fn=None, all_rdm_nan=False):
    """Build the library object from a spec (imports rsatoolbox lazily)."""
    value_fn = value_fn or value_fn_of(spec)
    from rsatoolbox.rdm import RDMs
    ru, cu = spec['rdm_uids'], spec['cond_uids']
    nr, nc = len(ru), len(cu)
    mats = np.zeros((nr, nc, nc))
    for k, r in enumerate(ru):
        for i in range(nc):
            for j in range(nc):
                if i != j:
                    mats[k, i, j] = value_fn(r, cu[i], cu[j])
    for (k, i, j) in spec.get('nan_cells', []):
        mats[k, i, j] = np.nan
        mats[k, j, i] = np.nan
    iu = np.triu_indices(nc, 1)
    vecs = np.array([m[iu] for m in mats]).reshape(nr, -1)
    rdm_desc = {'uid': list(ru)}
    for k, d in spec.get('rdm_desc', {}).items():
        rdm_desc[k] = _container(d)
    pat_desc = {'uid': list(cu)}
    for k, d in spec.get('pat_desc', {}).items():
        pat_desc[k] = _container(d)
    if spec.get('dtype') in ('int64', 'float32'):
        # rank-like integer stacks / single precision (all encoded values are exact in both); integer stacks carry no NaN
        vecs, mats = vecs.astype(spec['dtype']), mats.astype(spec['dtype'])
    if spec.get('order') == 'F':
        vecs = np.asfortranarray(vecs)       # a non-C-contiguous input array
    elif spec.get('order') == 'S':
        big = np.full((nr, 2 * vecs.shape[1] + 1), -7.0)     # a strided view into a larger buffer
        big[:, 1::2] = vecs
        vecs = big[:, 1::2]
    elif spec.get('order') == 'Q':
        vecs = mats                          # square matrices handed to the constructor
    return RDMs(vecs, dissimilarity_measure=spec.get('measure'),
                descriptors=dict(spec.get('descriptors', {})),
                rdm_descriptors=rdm_desc, pattern_descriptors=pat_desc)


def source_tables(spec):
    """reference tables of a spec: per-uid descriptor values and the NaN cells by uid"""
    ru, cu = spec['rdm_uids'], spec['cond_uids']
    rdm_tab = {r: {'uid': r} for r in ru}
    for k, d in spec.get('rdm_desc', {}).items():
        for r, v in zip(ru, d['values']):
            rdm_tab[r][k] = v
    pat_tab = {c: {'uid': c} for c in cu}
    for k, d in spec.get('pat_desc', {}).items():
        for c, v in zip(cu, d['values']):
            pat_tab[c][k] = v
    nan_cells = set()
    for (k, i, j) in spec.get('nan_cells', []):
        a, b = cu[i], cu[j]
        nan_cells.add((ru[k], min(a, b), max(a, b)))
    return rdm_tab, pat_tab, nan_cells


def square_from_vector(vec, n):
    """independent vector -> square index formula (row-major upper triangle)"""
    m = np.zeros((n, n))
    p = 0
    for i in range(n):
        for j in range(i + 1, n):
            m[i, j] = vec[p]
            m[j, i] = vec[p]
            p += 1
    assert p == len(vec), (p, len(vec), n)
    return m


def val_b(r, a, b, salt='v'):
    """numerically varied, deterministic, dyadic-rational value for (rdm uid, cond uid pair)"""
    from .kernel import H
    lo, hi = (a, b) if a <= b else (b, a)
    return 0.5 + (H(salt, int(r), int(lo), int(hi)) % 4096) / 512.0


def make_value_fn(salt='v', alt_salt=None, alt_pred=None):
    def fn(r, a, b):
        if alt_pred is not None and alt_pred(r, a, b):
            return val_b(r, a, b, alt_salt)
        return val_b(r, a, b, salt)
    return fn


def build_model_rdms(spec, n_basis, salt='m', measure=None):
    """basis RDMs over the same conditions and pattern descriptors as the data spec"""
    from rsatoolbox.rdm import RDMs
    cu = spec['cond_uids']
    nc = len(cu)
    iu = np.triu_indices(nc, 1)
    vecs = np.array([[val_b(900 + m, cu[i], cu[j], salt) for i, j in zip(*iu)] for m in range(n_basis)]).reshape(n_basis, -1)
    pat_desc = {'uid': list(cu)}
    for k, d in spec.get('pat_desc', {}).items():
        pat_desc[k] = _container(d)
    return RDMs(vecs, dissimilarity_measure=measure, pattern_descriptors=pat_desc,
                rdm_descriptors={'uid': [900 + m for m in range(n_basis)]})
