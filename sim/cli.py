#!/venv/bin/python
"""CLI:  cli.py check <Cxx> [--tier quick|thorough] [--runs N] [--workers W] [--first I]
         cli.py replay <file>
         cli.py selftest determinism <Cxx> [--seeds N]
         cli.py setup
Exit codes: 0 held / 1 violation (VIOLATION line printed) / 2 harness problem."""
import os
import sys

HERE = os.path.dirname(os.path.abspath(__file__))
VERIF = os.path.dirname(HERE)

_ENV = {'PYTHONHASHSEED': '0', 'OMP_NUM_THREADS': '1', 'OPENBLAS_NUM_THREADS': '1',
        'MKL_NUM_THREADS': '1', 'TQDM_DISABLE': '1', 'MPLBACKEND': 'Agg'}


def _hashseed(argv):
    """the iteration order of sets of strings inside the library is one more source of nondeterminism: it is fixed per
    process by PYTHONHASHSEED, which is derived from VERIF_SEED (a replay takes the value recorded in its file)"""
    if len(argv) > 2 and argv[1] == 'replay':
        try:
            import json
            return str(int(json.load(open(argv[2])).get('hashseed', 0)))
        except Exception:
            return '0'
    try:
        return str(int(os.environ.get('VERIF_SEED', '0')) % 4294967296)
    except ValueError:
        return '0'


def _reexec_if_needed():
    need = False
    _ENV['PYTHONHASHSEED'] = _hashseed(sys.argv)
    for k, v in _ENV.items():
        if k == 'PYTHONHASHSEED' and os.environ.get('VERIF_KEEP_HASHSEED'):
            continue
        if os.environ.get(k) != v:
            os.environ[k] = v
            need = True
    src = os.environ.get('VERIF_REPO_SRC', '/repo/src')
    pp = os.environ.get('PYTHONPATH', '').split(os.pathsep)
    if pp[0] != src:
        os.environ['PYTHONPATH'] = os.pathsep.join([src] + [p for p in pp if p and p != src])
        need = True
    if need and not os.environ.get('VERIF_REEXEC'):
        os.environ['VERIF_REEXEC'] = '1'
        os.execv(sys.executable, [sys.executable] + sys.argv)


def main(argv):
    if len(argv) < 2:
        print(__doc__)
        return 2
    _reexec_if_needed()
    sys.path.insert(0, VERIF)
    import warnings
    warnings.filterwarnings('ignore')
    cmd = argv[1]
    if cmd == 'setup':
        import numpy, scipy, h5py, joblib  # noqa
        import rsatoolbox
        src = os.environ.get('VERIF_REPO_SRC', '/repo/src')
        assert os.path.abspath(rsatoolbox.__file__).startswith(os.path.abspath(src)), rsatoolbox.__file__
        print('setup ok: rsatoolbox from', rsatoolbox.__file__)
        return 0
    from sim import runner
    if cmd == 'check':
        prop = argv[2]
        tier = os.environ.get('VERIF_TIER', 'quick')
        runs = workers = None
        first = 0
        i = 3
        while i < len(argv):
            if argv[i] == '--tier':
                tier = argv[i + 1]; i += 2
            elif argv[i] == '--runs':
                runs = int(argv[i + 1]); i += 2
            elif argv[i] == '--workers':
                workers = int(argv[i + 1]); i += 2
            elif argv[i] == '--first':
                first = int(argv[i + 1]); i += 2
            else:
                print('unknown argument', argv[i]); return 2
        seed = int(os.environ.get('VERIF_SEED', '0'))
        print(f'VERIF_SEED={seed}')
        status, _ = runner.run_check(prop, tier, seed, n_runs=runs, workers=workers, first_index=first)
        return status
    if cmd == 'one':   # debug: run one generated plan in-process and print the outcome
        import json, time
        mod = runner.load_check(argv[2])
        tier = 'quick'
        idx = int(argv[3])
        if '--tier' in argv:
            tier = argv[argv.index('--tier') + 1]
        seed = int(os.environ.get('VERIF_SEED', '0'))
        plan = runner.make_plan(mod, seed, tier, idx)
        t0 = time.time()
        out = runner.execute_plan(mod, plan, runner.known_open_sigs(argv[2]), cap_s=600, keep_events='--events' in argv)
        print(json.dumps(mod.summarize(plan) if hasattr(mod, 'summarize') else plan)[:3000])
        print(json.dumps({k: v for k, v in out.items() if k != 'draw_script'}, indent=1)[:6000])
        print('wall', time.time() - t0)
        return 0
    if cmd == 'replay':
        ok, msg = runner.replay_file(argv[2])
        print(msg)
        if ok:
            import json
            doc = json.load(open(argv[2]))
            print(f"VIOLATION property={doc['property']} replay={os.path.abspath(argv[2])}")
            return 1
        return 2 if msg.startswith('HARNESS') else 0
    if cmd == 'selftest':
        from sim import selftest
        return selftest.main(argv[2:])
    print(__doc__)
    return 2


if __name__ == '__main__':
    sys.exit(main(sys.argv))
