"""Scheduler seam: a joblib backend whose submit() only queues the batch, plus a replacement for the `time` module
seen by joblib.parallel whose sleep() = "the main thread is idle -> advance simulated time to the next event": the
seeded scheduler picks one queued batch, runs it to completion in this (single) thread and fires joblib's own
completion callback. joblib's dispatch / pre-dispatch / batching / ordered-retrieval machinery runs unmodified."""
from __future__ import annotations
import random
import time as _real_time

import joblib
import joblib.parallel as jp
from joblib._parallel_backends import ParallelBackendBase

from .kernel import H

CURRENT = None     # the active Scheduler (one simulated run at a time per process)


class Stall(Exception):
    """main thread keeps polling although nothing is queued (bounded-progress violation)"""


class _Handle:
    __slots__ = ('func', 'callback', 'result', 'error', 'first_task', 'n_tasks', 'bid')

    def __init__(self, func, callback, bid):
        self.func, self.callback, self.bid = func, callback, bid
        self.result = None
        self.error = None


class SimBackend(ParallelBackendBase):
    supports_retrieve_callback = True
    supports_inner_max_num_threads = False
    supports_sharedmem = True
    uses_threads = True

    def __init__(self, *a, **kw):
        super().__init__(*a, **kw)

    def effective_n_jobs(self, n_jobs):
        if n_jobs is None:
            return 1
        if n_jobs < 0:
            n_jobs = max(CURRENT.cpu_count + 1 + n_jobs, 1)
        return max(int(n_jobs), 1)

    def configure(self, n_jobs=1, parallel=None, **kw):
        self.parallel = parallel
        n = self.effective_n_jobs(n_jobs)
        CURRENT.on_configure(n)
        return n

    def compute_batch_size(self):
        return CURRENT.batch_size

    def batch_completed(self, batch_size, duration):
        pass

    def submit(self, func, callback=None):
        return CURRENT.enqueue(func, callback)

    def retrieve_result_callback(self, out):
        if out.error is not None:
            raise out.error
        return out.result

    def terminate(self):
        pass

    def abort_everything(self, ensure_ready=True):
        CURRENT.queue.clear()

    def get_nested_backend(self):
        from joblib._parallel_backends import SequentialBackend
        return SequentialBackend(nesting_level=(self.nesting_level or 0) + 1), None


class _TimeShim:
    """what joblib.parallel sees as `time`"""

    def __init__(self, sched):
        self._s = sched

    def time(self):
        return float(self._s.clock)

    def sleep(self, dt):
        self._s.idle_tick()

    def __getattr__(self, name):
        return getattr(_real_time, name)


class Scheduler:
    def __init__(self, ctx, seed, policy='random', batch_size=1, straggler=None, cpu_count=4, max_idle=200):
        self.ctx = ctx
        self.seed = int(seed)
        self.policy = policy
        self.batch_size = int(batch_size)
        self.straggler = straggler        # batch id that is always scheduled last
        self.cpu_count = cpu_count
        self.queue = []
        self.clock = 0
        self.n_decisions = 0
        self.completion_order = []
        self.next_bid = 0
        self.idle_empty = 0
        self.max_idle = max_idle
        self.max_queue = 0
        self.configured_n_jobs = None
        self._saved_time = None

    # --- backend side
    def on_configure(self, n):
        self.configured_n_jobs = n
        self.ctx.tick('sched', ev='configure', n_jobs=n, batch=self.batch_size, policy=self.policy)

    def enqueue(self, func, callback):
        h = _Handle(func, callback, self.next_bid)
        self.next_bid += 1
        self.queue.append(h)
        self.max_queue = max(self.max_queue, len(self.queue))
        self.ctx.tick('sched', ev='submit', bid=h.bid, queued=len(self.queue))
        return h

    # --- clock side
    def idle_tick(self):
        self.clock += 1
        if not self.queue:
            self.idle_empty += 1
            self.ctx.tick('sched', ev='idle-empty', n=self.idle_empty)
            if self.idle_empty > self.max_idle:
                raise Stall(f'main thread polled {self.idle_empty} times with an empty task queue')
            return
        self.idle_empty = 0
        k = self._pick()
        h = self.queue.pop(k)
        if len(self.queue) + 1 >= 2:
            self.ctx.nontrivial = True
        self.ctx.tick('sched', ev='run', bid=h.bid, picked=k, queued=len(self.queue) + 1)
        try:
            h.result = h.func()
        except BaseException as e:     # delivered to joblib like a worker exception
            h.error = e
        self.completion_order.append(h.bid)
        if h.callback is not None:
            h.callback(h)

    def _pick(self):
        n = len(self.queue)
        r = random.Random(H('sched', self.seed, self.n_decisions))
        self.n_decisions += 1
        cands = list(range(n))
        if self.straggler is not None and n > 1:
            cands = [i for i in cands if self.queue[i].bid != self.straggler] or cands
            self.ctx.fault('straggler_held_back') if len(cands) < n else None
        if self.policy == 'fifo':
            return cands[0]
        if self.policy == 'lifo':
            return cands[-1]
        return cands[r.randrange(len(cands))]

    # --- install
    def __enter__(self):
        global CURRENT
        CURRENT = self
        joblib.register_parallel_backend('sim', SimBackend)
        self._saved_time = jp.time
        jp.time = _TimeShim(self)
        self._cfg = joblib.parallel_config(backend='sim')
        self._cfg.__enter__()
        return self

    def __exit__(self, *a):
        global CURRENT
        self._cfg.__exit__(*a)
        jp.time = self._saved_time
        CURRENT = None
