"""Recording wrappers for library-internal calls, rebound in *every* rsatoolbox module that holds a binding
to the function, so a refactor that changes which binding is used cannot blind the oracle."""
from __future__ import annotations
import sys


class Spies:
    def __init__(self, clock=None):
        self.log = []
        self._restore = []
        self.clock = clock      # callable returning a position marker (e.g. number of served draws)

    def wrap(self, func, name, on_return=None):
        log = self.log
        clock = self.clock

        def spy(*a, **kw):
            ent = {'fn': name, 'args': a, 'kwargs': kw, 'k0': clock() if clock else None, 'pos': len(log)}
            log.append(ent)
            res = func(*a, **kw)
            ent['result'] = res
            ent['k1'] = clock() if clock else None
            ent['end'] = len(log)
            if on_return is not None:
                on_return(ent)
            return res
        spy.__name__ = getattr(func, '__name__', name)
        spy._verif_orig = func
        n = 0
        for mname, mod in list(sys.modules.items()):
            if mod is None or not mname.startswith('rsatoolbox'):
                continue
            for attr, val in list(vars(mod).items()):
                if val is func:
                    setattr(mod, attr, spy)
                    self._restore.append((mod, attr, func))
                    n += 1
        if n == 0:
            raise RuntimeError(f'spy target {name} not bound anywhere in rsatoolbox')
        return spy

    def uninstall(self):
        for mod, attr, func in reversed(self._restore):
            setattr(mod, attr, func)
        self._restore = []

    def __enter__(self):
        return self

    def __exit__(self, *a):
        self.uninstall()
