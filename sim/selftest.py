"""Self-tests of the harness itself.

determinism <Cxx> [--seeds N] [--runs R]: for N VERIF_SEED values run the same batch four times in fresh
interpreters -- (workers=1), (workers=16), (workers=16 again), (workers=4 under another PYTHONHASHSEED) -- and
require identical batch digests (the digest covers every event of every run, in run-index order)."""
import os
import re
import subprocess
import sys

HERE = os.path.dirname(os.path.abspath(__file__))


def _batch(prop, seed, runs, workers, hashseed=None, tier='quick'):
    env = dict(os.environ)
    env.pop('VERIF_REEXEC', None)
    env['VERIF_SEED'] = str(seed)
    env['VERIF_NO_EVIDENCE'] = '1'
    if hashseed is not None:
        env['PYTHONHASHSEED'] = str(hashseed)
        env['VERIF_KEEP_HASHSEED'] = '1'
    else:
        env.pop('VERIF_KEEP_HASHSEED', None)
        env['PYTHONHASHSEED'] = '0'
    r = subprocess.run([sys.executable, os.path.join(HERE, 'cli.py'), 'check', prop, '--tier', tier,
                        '--runs', str(runs), '--workers', str(workers)],
                       capture_output=True, text=True, env=env, timeout=3600)
    m = re.search(r'batch_digest=([0-9a-f]+)', r.stdout)
    return (m.group(1) if m else None), r.returncode, r.stdout[-400:] + r.stderr[-400:]


def main(argv):
    if not argv or argv[0] != 'determinism':
        print(__doc__)
        return 2
    prop = argv[1]
    seeds, runs = 8, 60
    i = 2
    while i < len(argv):
        if argv[i] == '--seeds':
            seeds = int(argv[i + 1])
        elif argv[i] == '--runs':
            runs = int(argv[i + 1])
        i += 2
    bad = 0
    for s in range(1000, 1000 + seeds):
        res = [_batch(prop, s, runs, 1), _batch(prop, s, runs, 16), _batch(prop, s, runs, 16),
               _batch(prop, s, runs, 4, hashseed=12345)]
        if any('wall cap' in out for _, _, out in res):
            # a batch cut short by the tier's wall-clock cap (slow single-worker leg on a loaded machine) holds fewer
            # runs: its digest is not comparable -- neither agreement nor divergence
            print(f'seed {s}: a leg was truncated by the wall-clock cap, not comparable (use fewer --runs)')
            continue
        digs = {d for d, _, _ in res}
        ok = len(digs) == 1 and None not in digs
        print(f'seed {s}: digests {[d for d, _, _ in res]} rc={[rc for _, rc, _ in res]} {"OK" if ok else "DIVERGED"}')
        if not ok:
            bad += 1
            print(res[0][2])
    print(f'determinism {prop}: {seeds - bad}/{seeds} seeds identical across 4 executions')
    return 0 if bad == 0 else 2
