"""Process-global state of the library is part of a run's history: a module-level cache or registry that one run fills
would shape the next run in the same worker process, so a violation would depend on which runs came before and would not
replay from its file.  Every run therefore starts from the state the library has right after import: module-level
containers of all rsatoolbox modules are restored in place and functools caches are cleared ("process restart" of the
simulated session, without paying for an interpreter per run)."""
from __future__ import annotations
import copy
import sys

_BASE = None
_CACHES = []


def _import_all():
    import importlib
    import pkgutil
    import rsatoolbox
    for m in pkgutil.walk_packages(rsatoolbox.__path__, 'rsatoolbox.'):
        if '.vis' in m.name:          # plotting (matplotlib) is outside every property here
            continue
        try:
            importlib.import_module(m.name)
        except Exception:
            pass


def _scan():
    base, caches = {}, []
    for name, mod in list(sys.modules.items()):
        if mod is None or not (name == 'rsatoolbox' or name.startswith('rsatoolbox.')):
            continue
        for attr, val in list(vars(mod).items()):
            if attr.startswith('__'):
                continue
            if isinstance(val, (dict, list, set)):
                try:
                    base[(name, attr)] = (val, copy.deepcopy(val))
                except Exception:
                    pass
            elif callable(val) and hasattr(val, 'cache_clear'):
                caches.append(val)
        # state that lives on functions and classes: mutable default arguments (a list that accumulates across calls), class-
        # level containers
        import inspect
        import types
        funcs = []
        for attr, val in list(vars(mod).items()):
            if isinstance(val, types.FunctionType) and val.__module__ == name:
                funcs.append((attr, val))
            elif inspect.isclass(val) and val.__module__ == name:
                for k, v in list(vars(val).items()):
                    f = getattr(v, '__func__', v)
                    if isinstance(f, types.FunctionType):
                        funcs.append((f'{attr}.{k}', f))
                    elif isinstance(v, (dict, list, set)) and not k.startswith('__'):
                        try:
                            base[(name, f'{attr}.{k}')] = (v, copy.deepcopy(v))
                        except Exception:
                            pass
        for fname, f in funcs:
            cells = list(f.__defaults__ or ()) + list((f.__kwdefaults__ or {}).values())
            for i, d in enumerate(cells):
                if isinstance(d, (dict, list, set)):
                    try:
                        base[(name, f'{fname}#default{i}')] = (d, copy.deepcopy(d))
                    except Exception:
                        pass
    return base, caches


def reset(ctx=None):
    """restore the library's module-level state to what it was right after import"""
    global _BASE, _CACHES
    if _BASE is None:
        _import_all()
        _BASE, _CACHES = _scan()
        return
    # modules imported since (none expected: everything was imported above) start their baseline now
    dirty = 0
    for (name, attr), (obj, snap) in _BASE.items():
        try:
            if obj != snap:
                dirty += 1
                if isinstance(obj, dict):
                    obj.clear()
                    obj.update(copy.deepcopy(snap))
                elif isinstance(obj, list):
                    obj[:] = copy.deepcopy(snap)
                else:
                    obj.clear()
                    obj.update(copy.deepcopy(snap))
        except Exception:
            pass
    for c in _CACHES:
        try:
            c.cache_clear()
        except Exception:
            pass
    # functools caches added to functions by later rebinding are picked up here
    for name, mod in list(sys.modules.items()):
        if mod is None or not name.startswith('rsatoolbox'):
            continue
        for attr, val in list(vars(mod).items()):
            if (name, attr) not in _BASE and not attr.startswith('__') and isinstance(val, (dict, list, set)):
                try:
                    _BASE[(name, attr)] = (val, copy.deepcopy(type(val)()))      # created after import: empty at start
                    val.clear()
                except Exception:
                    pass
    if ctx is not None and dirty:
        ctx.probe('library_state_restored', dirty)
