"""RDMs operations of the pool machine: admissible-argument resolution, the library call, and the twin semantics
(DESIGN Appendix B). Every op takes a JSON-able dict with generic integer fields (t, u, a[], flag) that are resolved
against the *current* pool, so that shrinking an operation list never produces an inadmissible history."""
from __future__ import annotations
import random
from collections import Counter
from copy import deepcopy

import numpy as np

from .kernel import HarnessError
from .gen import enc, norm, normlist, square_from_vector
from . import gen

STRUCT_OPS = ['getitem_int', 'getitem_list', 'iterate', 'subset', 'subsample', 'subset_pattern', 'subsample_pattern',
              'reorder', 'sort_by_alpha', 'sort_by_list', 'append', 'concat', 'copy', 'roundtrip_matrix',
              'roundtrip_vector', 'roundtrip_dict', 'to_df', 'permute', 'from_partials', 'size_recovery']
INPLACE_OPS = ['reorder', 'sort_by_alpha', 'sort_by_list', 'append', 'array_write', 'relabel']
PRODUCER_OPS = ['rank_transform', 'sqrt_transform', 'positive_transform', 'minmax_transform', 'geotopological_transform',
                'geodesic_transform', 'transform_fun', 'rescale', 'mean', 'compare', 'pool_rdm', 'model_predict',
                'model_fit', 'eval_fixed', 'bootstrap_sample', 'sets_k_fold', 'get_vectors_write', 'get_matrices_write',
                'boot_noise_ceiling']


def gen_family(rng, n_roots=(1, 3), n_cond=(2, 8), n_rdm=(1, 4), mixed_ok=True):
    nc = rng.randint(*n_cond)
    if n_cond == (2, 8) and rng.chance(0.08):
        nc = rng.randint(17, 26)       # beyond the sizes where sorts / look-ups switch algorithms
    cond_uids = rng.sample(range(0, 31), nc)
    pat_desc = {'grp': gen.gen_grouping(rng, nc)}
    if rng.chance(0.7):
        pat_desc['extra'] = {'values': ['c%d' % u for u in cond_uids], 'container': rng.pick(['list', 'array'])}
    if rng.chance(0.5):
        # a strictly increasing numeric descriptor held as ndarray (positions, onsets ...)
        pat_desc['pos'] = {'values': [10 * (i + 1) + 5 for i in range(nc)], 'container': 'array'}
    if rng.chance(0.2):
        pat_desc['xyz'] = {'values': [[float(u), u + 0.5] for u in cond_uids], 'container': 'array'}     # one row per condition
    xyz_r = rng.chance(0.2)
    roots = []
    used = set()
    measure = rng.pick(['euclidean', None, 'corr'])
    rtyp = rng.pick(['int', 'str', 'float'])
    fneg = rng.chance(0.2)       # some negative dissimilarities (family-wide)
    fzero = rng.chance(0.15)     # some exact zeros between different conditions (family-wide)
    fnote = rng.chance(0.3)      # an rdm descriptor that only some of the root objects carry
    fmixed = rng.chance(0.15) and mixed_ok
    fdtype = rng.pick(['float64', 'float64', 'float64', 'float64', 'int64', 'float32'])     # dtype of the stacks handed to the constructor
    finf = rng.chance(0.08) and fdtype != 'int64'      # some infinite dissimilarities (family-wide)
    styp = rng.pick(['str', 'str', 'int', 'bigint', 'tiny', 'vec'])     # object-level descriptor values incl. falsy ones ('' / 0), one type per family
    # (numbers that differ in the tenth digit -- acquisition ids, time stamps -- or far below one are different values)
    sess_vals = {'str': ['s1', 's2', '', 's7'], 'int': [0, 1, 2, 0], 'bigint': [2023100401, 2023100402, 2023100403, 2023100401],
                 'tiny': [1e-9, 2e-9, 0.0, 1e-9],
                 'vec': [[1.0, 2.5], [1.0, 3.5], [0.0], [1.0, 2.5]]}[styp]        # a parameter vector / voxel size per object
    wgt = rng.chance(0.4)      # a float64 ndarray rdm descriptor usable as weights      # one label type per descriptor across the family (mixed-type columns are coerced by numpy)
    for _ in range(rng.randint(*n_roots)):
        nr = rng.randint(*n_rdm)
        ru = rng.sample([u for u in range(1, 90) if u not in used], nr)
        used.update(ru)
        spec = {'rdm_uids': ru, 'cond_uids': list(cond_uids), 'measure': measure,
                'descriptors': {'session': rng.pick(sess_vals), **({'subj': rng.pick(sess_vals)} if rng.chance(0.3) else {})},
                'rdm_desc': {'grp': gen.gen_grouping(rng, nr, typ=rtyp),
                             **({'wgt': {'values': [1.0 + 0.5 * i for i in range(nr)], 'container': 'array'}} if wgt else {}),
                             **({'roi_xyz': {'values': [[float(u), u * 2.0, 1.0] for u in ru], 'container': 'array'}} if xyz_r else {}),
                             'extra': {'values': ['x%d' % u for u in ru], 'container': rng.pick(['list', 'array'])}},
                'pat_desc': pat_desc, 'nan_cells': [], 'order': rng.pick(['F', 'S', 'Q']) if rng.chance(0.3) else 'C'}
        rdtype = fdtype
        if fdtype == 'int64':
            spec['enc2'] = True            # the whole family holds integral values ...
            if rng.chance(0.4):
                rdtype = 'float64'         # ... but not every stack of it is stored in an integer dtype
        if rdtype != 'float64':
            spec['dtype'] = rdtype
        if fneg:
            spec['neg'] = True
        if fzero:
            spec['zeros'] = True
        if finf:
            spec['infs'] = True
        if fmixed:
            # a hand-kept list of labels of mixed types (run numbers and names): each item keeps its own value, type included
            spec['rdm_desc']['mixed'] = {'values': [u if u % 2 else 'm%d' % u for u in ru], 'container': 'list'}
            spec['pat_desc'] = {**spec['pat_desc'], 'mixed': {'values': [u if u % 2 else 'k%d' % u for u in cond_uids], 'container': 'list'}}
        if fnote and rng.chance(0.5):
            spec['rdm_desc']['note'] = {'values': ['n%d' % u for u in ru], 'container': rng.pick(['list', 'array'])}
        if rng.chance(0.25) and nc >= 4 and rdtype != 'int64':
            i, j = sorted(rng.sample(range(nc), 2))
            spec['nan_cells'].append([rng.randrange(nr), i, j])
        roots.append(spec)
    return {'roots': roots}


def gen_op(rng, names_weights):
    return {'op': rng.wpick(names_weights), 't': rng.randrange(1000), 'u': rng.randrange(1000),
            'a': [rng.randrange(1000) for _ in range(6)], 'flag': rng.chance(0.5), 'flag2': rng.chance(0.5)}


class RdmsOps:
    def __init__(self, pool, family):
        self.pool = pool
        self.ctx = pool.ctx
        rdm_tab, pat_tab, nan_cells = {}, {}, set()
        for spec in family['roots']:
            rt, pt, nc = gen.source_tables(spec)
            rdm_tab.update(rt)
            pat_tab.update(pt)
            nan_cells |= nc
        pool.tables = (rdm_tab, pat_tab, nan_cells)
        pool.value_fn = gen.value_fn_of(family['roots'][0])
        pool.sem_checkers['rdms'] = (lambda slot, opname, prop='C10': pool.check_rdms(slot, opname, prop=prop), 'C10')
        for spec in family['roots']:
            try:
                obj = gen.build_rdms(spec)
            except Exception as e:
                if pool.prop == 'C10':
                    pool.report('C10', 'rdms_twin.raises', f'constructor:raises:{type(e).__name__}',
                                f'RDMs(...) raised {type(e).__name__}: {e} for a valid {len(spec["rdm_uids"])} x {len(spec["cond_uids"])}-condition vector stack')
                raise HarnessError(f'RDMs constructor raised {e!r}')
            s = pool.add(obj, 'rdms', {'ru': list(spec['rdm_uids']), 'cu': list(spec['cond_uids']), 'missing': set()},
                         'root', [])
            # the only library code between the generator and this check is the RDMs constructor: under C10 an
            # inconsistent root is a violation (vector length -> n_cond, descriptors stored), elsewhere a harness error
            pool.check_rdms(s, 'constructor', prop='C10' if pool.prop == 'C10' else 'HARNESS')
            if s.sem is None:
                raise HarnessError('generated root is inconsistent')

    # ------------------------------------------------------------------ helpers
    def rdms(self, sem_only=False):
        return [s for s in self.pool.of_kind('rdms') if (s.sem is not None or not sem_only) and s.obj.n_rdm > 0]

    def pick(self, o, key='t', sem_only=False, cands=None):
        if getattr(self, '_force', None) is not None and cands is None and key == 't':
            return self._force                # a composite step continues on the object it started with
        c = cands if cands is not None else self.rdms(sem_only)
        if not c:
            return None
        if o[key] == -1:                      # "the most recent result"
            return c[-1]
        if o[key] == -2:                      # "the source of the most recent result"
            par = [s for s in c if s.sid in c[-1].parents]
            return par[0] if par else c[-1]
        return c[o[key] % len(c)]

    def _by(self, obj, axis, k):
        d = obj.rdm_descriptors if axis == 'rdm' else obj.pattern_descriptors
        keys = [x for x in ('uid', 'grp', 'extra', 'pos', 'index') if x in d]
        return keys[k % len(keys)]

    def _byarg(self, by, o):
        """the documented default: by=None selects by the 'index' descriptor"""
        if by == 'index' and o['a'][5] % 2 == 0:
            self.ctx.probe('by_none')
            return None
        return by

    def _raise(self, opname, e, prop='C10'):
        self.pool.report(prop, 'rdms_twin.raises', f'{opname}:raises:{type(e).__name__}',
                         f'{opname} raised {type(e).__name__}: {e} on admissible arguments')

    def _plain_guard(self, opname, **named):
        return self.pool.plain_guard(opname, **named)

    def _finish(self, opname, res_obj, sem, parents, order=('seq', 'seq'), args=()):
        s = self.pool.add(res_obj, 'rdms', sem, opname, parents)
        self.pool.check_rdms(s, opname, order=order)
        self.pool.sweep(opname, target=None, args=args or parents, produced=[s.sid])
        self.ctx.behaviour(opname, *(self.pool.slots[p].op for p in parents[:1]))
        return s

    # ------------------------------------------------------------------ dispatcher
    def run(self, o):
        fn = getattr(self, 'op_' + o['op'], None)
        if fn is None:
            raise HarnessError('unknown op ' + o['op'])
        self.ctx.tick('op', op=o['op'], t=o['t'], u=o['u'], a=o['a'], flag=o['flag'])
        done = fn(o)
        if done is False:
            self.ctx.probe('op_skipped_inadmissible')
        else:
            self.ctx.nontrivial = True
            self.ctx.probe('ops_executed')
        # bound the pool
        live = [s for s in self.pool.slots if s.alive]
        if len(live) > 16:
            for s in live:
                if s.op != 'root':
                    s.alive = False
                    break

    # ------------------------------------------------------------------ value-returning structural ops
    def op_getitem_int(self, o):
        src = self.pick(o)
        if src is None:
            return False
        i = o['a'][0] % src.obj.n_rdm
        try:
            res = src.obj[i - src.obj.n_rdm if o['flag'] else (np.int64(i) if o['flag2'] else i)]      # also counted from the end
        except Exception as e:
            return self._raise('getitem_int', e)
        sem = None if src.sem is None else {**src.sem, 'ru': [src.sem['ru'][i]], 'cu': list(src.sem['cu'])}
        self._finish('getitem_int', res, sem, [src.sid])

    def op_getitem_list(self, o):
        src = self.pick(o)
        if src is None:
            return False
        n = src.obj.n_rdm
        idx = [a % n for a in o['a'][:1 + o['u'] % 4]]
        arg = np.array(idx) if o['flag'] else (tuple(idx) if o['flag2'] and len(idx) > 1 else idx)
        try:
            res = src.obj[arg]
        except Exception as e:
            return self._raise('getitem_list', e)
        sem = None if src.sem is None else {**src.sem, 'ru': [src.sem['ru'][i] for i in idx], 'cu': list(src.sem['cu'])}
        self._finish('getitem_list', res, sem, [src.sid])

    def op_iterate(self, o):
        src = self.pick(o)
        if src is None:
            return False
        try:
            if o['flag']:
                for _ in src.obj:          # an earlier iteration over the same object that was abandoned after one item
                    break
            items = list(src.obj)
            ln = len(src.obj)
        except Exception as e:
            return self._raise('iterate', e)
        if ln != src.obj.n_rdm or len(items) != ln:
            self.pool.report('C10', 'rdms_twin.content', 'iterate:length', f'len()={ln}, iteration yields {len(items)}, n_rdm={src.obj.n_rdm}')
            return
        k = o['a'][0] % ln
        if src.sem is not None:
            for i, it in enumerate(items):
                if i != k:
                    tmp = self.pool.add(it, 'rdms', {**src.sem, 'ru': [src.sem['ru'][i]], 'cu': list(src.sem['cu'])}, 'iterate', [src.sid])
                    self.pool.check_rdms(tmp, 'iterate')
                    # (one sibling stays in use next to the chosen item: items of one iteration are independent objects)
                    tmp.alive = i == (k + 1) % ln and tmp.sem is not None
        sem = None if src.sem is None else {**src.sem, 'ru': [src.sem['ru'][k]], 'cu': list(src.sem['cu'])}
        self._finish('iterate', items[k], sem, [src.sid])

    def _values(self, obj, axis, by, o, repeats):
        d = obj.rdm_descriptors if axis == 'rdm' else obj.pattern_descriptors
        gv = normlist(d[by])
        distinct = sorted(set(gv), key=lambda x: (str(type(x)), x))
        k = 1 + o['a'][1] % min(3, len(distinct)) if not repeats else 1 + o['a'][1] % 5
        if repeats:
            vals = [distinct[a % len(distinct)] for a in (o['a'] + o['a'])[:k]]
        else:
            r = random.Random(o['a'][2])
            vals = r.sample(distinct, k)
        return gv, vals

    def op_subset(self, o):
        src = self.pick(o)
        if src is None:
            return False
        by = self._by(src.obj, 'rdm', o['a'][0])
        gv, vals = self._values(src.obj, 'rdm', by, o, False)
        listed = list(vals) + ([vals[0]] if o['a'][3] % 4 == 0 else [])      # a value named twice selects each match once
        if o['a'][4] % 3 == 0:
            ab = gen.absent_like(vals, set(gv))
            if ab is not None:
                listed = listed + [ab]         # a value no RDM carries selects nothing (whatever it would truncate to)
                self.ctx.probe('absent_value_in_list')
        if o['a'][4] % 29 == 0 and self.pool.prop == 'C12':
            ab = gen.absent_like(vals, set(gv))
            if ab is not None:
                # a selection that matches nothing gives an empty stack; results are then collected into it with append (a
                # loop that starts from an empty selection): the source stays as it was, whatever happens to the collection
                try:
                    coll = src.obj.subset(self._byarg(by, o), [ab])
                    if coll.n_rdm == 0:
                        coll.append(src.obj)
                        coll.append(src.obj)
                        if coll.dissimilarities.size:
                            coll.dissimilarities[0, 0] = 777.25
                        self.ctx.probe('collected_into_empty_stack')
                except Exception:
                    self.ctx.probe('collect_into_empty_stack_raised')
                self.pool.sweep('append[onto-empty-subset]', args=[src.sid])
                return
        arg = vals[0] if (len(listed) == 1 and o['flag']) else (np.array(listed) if o['flag2'] else list(listed))
        guard = self._plain_guard('subset', value=arg)
        try:
            res = src.obj.subset(self._byarg(by, o), arg)
        except Exception as e:
            guard('raised')
            return self._raise('subset', e)
        sem = None
        if src.sem is not None:
            sem = {**src.sem, 'ru': [u for u, g in zip(src.sem['ru'], gv) if g in vals], 'cu': list(src.sem['cu'])}
        self._finish('subset', res, sem, [src.sid])
        guard()

    def op_subsample(self, o):
        src = self.pick(o)
        if src is None:
            return False
        by = self._by(src.obj, 'rdm', o['a'][0])
        gv, vals = self._values(src.obj, 'rdm', by, o, True)
        arg = np.array(vals) if o['flag2'] else list(vals)
        if o['flag'] and o['a'][3] % 3 == 0:
            vals = vals[:1]
            arg = vals[0]          # a scalar value (int or multi-character string)
        guard = self._plain_guard('subsample', value=arg)
        try:
            res = src.obj.subsample(self._byarg(by, o), arg)
        except Exception as e:
            guard('raised')
            return self._raise('subsample', e)
        sem = None
        if src.sem is not None:
            ru = []
            for v in vals:
                ru += [u for u, g in zip(src.sem['ru'], gv) if g == v]
            sem = {**src.sem, 'ru': ru, 'cu': list(src.sem['cu'])}
        self._finish('subsample', res, sem, [src.sid], order=('multiset', 'seq'))
        guard()

    def op_subset_pattern(self, o):
        src = self.pick(o)
        if src is None:
            return False
        by = self._by(src.obj, 'pattern', o['a'][0])
        gv, vals = self._values(src.obj, 'pattern', by, o, False)
        listed = list(vals) + ([vals[0]] if o['a'][3] % 4 == 0 else [])
        if o['a'][4] % 3 == 0:
            ab = gen.absent_like(vals, set(gv))
            if ab is not None:
                listed = listed + [ab]
                self.ctx.probe('absent_value_in_list')
        arg = vals[0] if (len(listed) == 1 and o['flag']) else (np.array(listed) if o['flag2'] else list(listed))
        if isinstance(arg, str):
            arg = [arg]     # a bare string is iterated character-wise by the library: pass strings in a list
        guard = self._plain_guard('subset_pattern', value=arg)
        try:
            res = src.obj.subset_pattern(self._byarg(by, o), arg)
        except Exception as e:
            guard('raised')
            return self._raise('subset_pattern', e)
        sem = None
        if src.sem is not None:
            sem = {**src.sem, 'ru': list(src.sem['ru']), 'cu': [u for u, g in zip(src.sem['cu'], gv) if g in vals]}
        self._finish('subset_pattern', res, sem, [src.sid])
        guard()

    def op_subsample_pattern(self, o):
        src = self.pick(o)
        if src is None:
            return False
        by = self._by(src.obj, 'pattern', o['a'][0])
        gv, vals = self._values(src.obj, 'pattern', by, o, True)
        arg = np.array(vals) if o['flag2'] else list(vals)
        guard = self._plain_guard('subsample_pattern', value=arg)
        try:
            res = src.obj.subsample_pattern(self._byarg(by, o), arg)
        except Exception as e:
            guard('raised')
            return self._raise('subsample_pattern', e)
        sem = None
        if src.sem is not None:
            cu = []
            for v in vals:
                cu += [u for u, g in zip(src.sem['cu'], gv) if g == v]
            sem = {**src.sem, 'ru': list(src.sem['ru']), 'cu': cu}
        self._finish('subsample_pattern', res, sem, [src.sid], order=('seq', 'multiset'))
        guard()

    def op_copy(self, o):
        src = self.pick(o)
        if src is None:
            return False
        try:
            res = src.obj.copy()
        except Exception as e:
            return self._raise('copy', e)
        self._finish('copy', res, None if src.sem is None else deepcopy(src.sem), [src.sid])

    def _desc_copies(self, obj):
        return dict(dissimilarity_measure=obj.dissimilarity_measure, descriptors=deepcopy(obj.descriptors),
                    rdm_descriptors=deepcopy(obj.rdm_descriptors), pattern_descriptors=deepcopy(obj.pattern_descriptors))

    def op_roundtrip_matrix(self, o):
        from rsatoolbox.rdm import RDMs
        src = self.pick(o)
        if src is None:
            return False
        try:
            mats = src.obj.get_matrices()
            vecs = src.obj.get_vectors()
            res = RDMs(np.array(mats, copy=True), **self._desc_copies(src.obj))
        except Exception as e:
            return self._raise('roundtrip_matrix', e)
        n = src.obj.n_cond
        ok = mats.shape == (src.obj.n_rdm, n, n)
        if ok:
            for k in range(src.obj.n_rdm):
                ref = square_from_vector(vecs[k], n)
                if not np.array_equal(mats[k], ref, equal_nan=True):
                    ok = False
                    break
        if not ok:
            self.pool.report('C10', 'rdms_twin.forms', 'get_matrices:forms',
                             f'get_matrices() of slot {src.sid} is not the symmetric zero-diagonal square form of get_vectors() (n_cond={n})')
        self._finish('roundtrip_matrix', res, None if src.sem is None else deepcopy(src.sem), [src.sid])

    def op_roundtrip_vector(self, o):
        from rsatoolbox.rdm import RDMs
        src = self.pick(o)
        if src is None:
            return False
        try:
            v = np.array(src.obj.get_vectors(), copy=True)
            if src.obj.n_rdm == 1 and o['flag']:
                v = v[0]            # 1-d vector input
            res = RDMs(v, **self._desc_copies(src.obj))
        except Exception as e:
            return self._raise('roundtrip_vector', e)
        self._finish('roundtrip_vector', res, None if src.sem is None else deepcopy(src.sem), [src.sid])

    def op_roundtrip_dict(self, o):
        from rsatoolbox.rdm import rdms_from_dict
        src = self.pick(o)
        if src is None:
            return False
        try:
            d = src.obj.to_dict()
            if o['a'][2] % 3 == 0 and self.pool.prop != 'C12':
                # the form a dictionary read from a file has: a descriptor stored item by item arrives as a mapping from the
                # item number (as text) to the value -- in whatever order the file lists its keys
                d = deepcopy(d)
                for dn in ('rdm_descriptors', 'pattern_descriptors'):
                    for k_ in sorted(d[dn]):
                        if k_ != 'index' and o['a'][3] % 2 == (0 if dn == 'rdm_descriptors' else 1):
                            vals_ = list(d[dn][k_])
                            order_ = sorted(range(len(vals_)), key=str, reverse=bool(o['a'][4] % 2))
                            d[dn][k_] = {str(i_): vals_[i_] for i_ in order_}
                            break
                self.ctx.probe('roundtrip_dict_keyed_form')
            res = rdms_from_dict(deepcopy(d) if (o['flag'] or self.pool.prop != 'C12') else d)
        except Exception as e:
            return self._raise('roundtrip_dict', e)
        # the dictionary form carries every descriptor, the 'index' descriptors included (after a subset or an indexing they
        # name the items of the object it was taken from)
        for what, a, b in (('rdm', src.obj.rdm_descriptors, res.rdm_descriptors), ('pattern', src.obj.pattern_descriptors, res.pattern_descriptors)):
            if 'index' in a and normlist(a['index']) != normlist(b.get('index', [])):
                self.pool.report('C10', 'rdms_twin.descriptors', 'roundtrip_dict:index',
                                 f'rdms_from_dict(to_dict()): {what} index {normlist(b.get("index", []))} instead of {normlist(a["index"])}')
                break
        self._finish('roundtrip_dict', res, None if src.sem is None else deepcopy(src.sem), [src.sid])

    def op_size_recovery(self, o):
        from rsatoolbox.rdm import RDMs
        n = 1 + o['a'][0] % 14
        try:
            r1 = RDMs(np.zeros((1 + o['a'][1] % 3, n * (n - 1) // 2)))
            r2 = RDMs(np.zeros(n * (n - 1) // 2)) if n > 1 else r1
            got = (r1.n_cond, r2.n_cond, r1.get_matrices().shape[1:])
        except Exception as e:
            return self._raise('size_recovery', e)
        if got != (n, n, (n, n)):
            self.pool.report('C10', 'rdms_twin.size', 'size_recovery:n_cond',
                             f'a vector of length {n * (n - 1) // 2} gives n_cond {got}, expected {n}')
        if r1.n_rdm != 1 + o['a'][1] % 3 or r1.dissimilarities.shape != (1 + o['a'][1] % 3, n * (n - 1) // 2):
            self.pool.report('C10', 'rdms_twin.size', 'size_recovery:n_rdm',
                             f'a stack of {1 + o["a"][1] % 3} vectors of length {n * (n - 1) // 2} gives n_rdm {r1.n_rdm}, '
                             f'dissimilarities {r1.dissimilarities.shape}')
        # as many RDMs as pairs: the stack of vectors is a square array, here even a symmetric one with a zero diagonal --
        # it is a stack of vectors all the same (2-D input = vectors, 3-D input = matrices)
        npair = n * (n - 1) // 2
        if 2 <= npair <= 45:
            stack = np.array([[0.0 if i == j else 1.0 + min(i, j) * npair + max(i, j) + 0.25 * (o['a'][2] % 3) for j in range(npair)] for i in range(npair)])
            if o['a'][3] % 3 == 0:
                stack = np.zeros((npair, npair))
            try:
                r3 = RDMs(stack.copy())
                ok3 = (r3.n_rdm == npair and r3.n_cond == n and np.array_equal(r3.get_vectors(), stack)
                       and r3.get_matrices().shape == (npair, n, n))
            except Exception as e:
                return self._raise('size_recovery:square-stack', e)
            if not ok3:
                self.pool.report('C10', 'rdms_twin.size', 'size_recovery:square-stack',
                                 f'a stack of {npair} vectors of length {npair} ({n} conditions) gives n_rdm {r3.n_rdm}, n_cond {r3.n_cond}, '
                                 f'dissimilarities {r3.dissimilarities.shape}')
            self.ctx.probe('square_stack_checked')
        self.ctx.behaviour('size_recovery', n)

    def op_to_df(self, o):
        src = self.pick(o, sem_only=True)
        if src is None:
            return False
        for dd in (src.obj.rdm_descriptors, src.obj.pattern_descriptors):
            for v in dd.values():
                if any(x is None or isinstance(x, (list, tuple, np.ndarray)) for x in v):
                    return False     # array-valued / missing descriptor entries cannot form a DataFrame column
        try:
            df = src.obj.to_df()
        except Exception as e:
            return self._raise('to_df', e)
        rdm_tab, pat_tab, nan_cells = self.pool.tables_for(src.sem)
        missing = set(nan_cells) | set(src.sem.get('missing', ()))
        ru, cu = src.sem['ru'], src.sem['cu']
        nc = len(cu)
        exp_rows = Counter()
        for r in ru:
            for i in range(nc):
                for j in range(i + 1, nc):
                    a, b = cu[i], cu[j]
                    v = None if (a == b or (r, min(a, b), max(a, b)) in missing) else self.pool.value_fn(r, a, b)
                    exp_rows[(r, a, b, v)] += 1
        got_rows = Counter()
        try:
            cols = set(df.columns)
            need = {'dissimilarity', 'uid', 'uid_1', 'uid_2'}
            if not need <= cols:
                raise KeyError(f'columns {sorted(need - cols)} missing')
            for row in df.itertuples(index=False):
                d = row._asdict()
                v = d['dissimilarity']
                got_rows[(norm(d['uid']), norm(d['uid_1']), norm(d['uid_2']), None if v != v else float(v))] += 1
                # descriptor columns must belong to the same RDM / conditions
                for key in ('grp', 'extra'):
                    if key in rdm_tab[norm(d['uid'])] and key in cols and norm(d[key]) != norm(rdm_tab[norm(d['uid'])][key]):
                        raise ValueError(f'row of RDM {d["uid"]}: rdm descriptor {key}={d[key]!r} belongs to another RDM')
                    for sfx, cid in (('_1', norm(d['uid_1'])), ('_2', norm(d['uid_2']))):
                        if key + sfx in cols and key in pat_tab[cid] and norm(d[key + sfx]) != norm(pat_tab[cid][key]):
                            raise ValueError(f'row: pattern descriptor {key + sfx}={d[key + sfx]!r} does not belong to condition {cid}')
        except Exception as e:
            self.pool.report('C10', 'rdms_twin.to_df', 'to_df:rows', f'to_df() of slot {src.sid}: {e}')
            self.pool.sweep('to_df', args=[src.sid])
            return
        if got_rows != exp_rows:
            diff = list((got_rows - exp_rows).items())[:3]
            self.pool.report('C10', 'rdms_twin.to_df', 'to_df:values',
                             f'to_df() of slot {src.sid}: rows (rdm uid, cond uid 1, cond uid 2, value) not in the source: {diff}')
        self.pool.sweep('to_df', args=[src.sid])
        self.ctx.behaviour('to_df', src.op, src.obj.dissimilarities.flags['C_CONTIGUOUS'])

    def op_permute(self, o):
        from rsatoolbox.rdm.rdms import permute_rdms, inverse_permute_rdms
        src = self.pick(o)
        if src is None:
            return False
        n = src.obj.n_cond
        if n < 2:
            return False
        if isinstance(src.obj.pattern_descriptors.get('index', [0])[0], str) or not all(
                isinstance(norm(x), int) for x in src.obj.pattern_descriptors['index']):
            return False
        r = random.Random(o['a'][0])
        p = list(range(n))
        r.shuffle(p)
        parg = None if o['flag'] else np.array(p)      # (documented as numpy.ndarray)
        guard = self._plain_guard('permute_rdms', p=parg)
        had_pinv = 'p_inv' in src.obj.descriptors
        try:
            res = permute_rdms(src.obj, p=parg)
            if not had_pinv and 'p_inv' in src.obj.descriptors:
                self.pool.report('C10', 'rdms_twin.descriptors', 'permute_rdms:source-gains-p_inv',
                                 'permute_rdms wrote the inverse permutation into the descriptors of the object it was given (a later '
                                 'permutation of that object overwrites it, and the inverse of the first result is then wrong)')
            if o['flag']:
                p = [int(x) for x in np.argsort(res.descriptors['p_inv'])]     # the permutation the RNG seam served
        except Exception as e:
            return self._raise('permute_rdms', e)
        sem = None
        if src.sem is not None:
            sem = {**src.sem, 'ru': list(src.sem['ru']), 'cu': [src.sem['cu'][i] for i in p]}
        s = self._finish('permute_rdms', res, sem, [src.sid])
        guard()
        if o['flag2'] and s.alive:
            try:
                back = inverse_permute_rdms(s.obj)
            except Exception as e:
                return self._raise('inverse_permute_rdms', e)
            sem2 = None if src.sem is None else {**src.sem, 'ru': list(src.sem['ru']), 'cu': list(src.sem['cu'])}
            self._finish('inverse_permute_rdms', back, sem2, [s.sid])

    @staticmethod
    def _expected_odesc(objs):
        """per key of any operand's object-level descriptors: the value each RDM of the combination carries"""
        keys = []
        for ob in objs:
            keys += [k for k in ob.descriptors if k not in keys]
        exp = {}
        for k in keys:
            if any(k in ob.descriptors and k in ob.rdm_descriptors for ob in objs):
                continue        # the same name at both levels of one operand (permute after a demoting concat): not judged
            vals = []
            for ob in objs:
                for i in range(ob.n_rdm):
                    if k in ob.rdm_descriptors:
                        vals.append(norm(ob.rdm_descriptors[k][i]))
                    elif k in ob.descriptors:
                        vals.append(norm(ob.descriptors[k]))
                    else:
                        vals.append(None)
            exp[k] = vals
        return exp

    def _check_odesc(self, res, exp, opname):
        for k, vals in exp.items():
            if k in res.descriptors:
                got = [norm(res.descriptors[k])] * len(vals)
            elif k in res.rdm_descriptors:
                got = normlist(res.rdm_descriptors[k])
            else:
                self.pool.report('C10', 'rdms_twin.descriptors', f'{opname}:object-descriptors',
                                 f'object-level descriptor {k!r} of the operands is neither a descriptor nor an rdm_descriptor of the result')
                continue
            if got != vals:
                self.pool.report('C10', 'rdms_twin.descriptors', f'{opname}:object-descriptors',
                                 f'object-level descriptor {k!r}: the RDMs of the result carry {got!r}, the operands say {vals!r}')
            self.ctx.probe('odesc_checked' + ('_demoted' if k not in res.descriptors else ''))

    def op_from_partials(self, o):
        from rsatoolbox.rdm.combine import from_partials
        src = self.pick(o, sem_only=True)
        if src is None or len(set(src.sem['cu'])) < len(src.sem['cu']) or src.obj.n_cond < 3:
            return False
        r = random.Random(o['a'][0])
        parts, sems = [], []
        for k in range(2 + o['u'] % 2):
            cu = src.sem['cu']
            sub = r.sample(cu, 1 if (o['a'][4] % 5 == 0 and k < 1 + o['u'] % 2) else r.randint(2, len(cu)))      # sometimes a partial with one condition (no pairs), not in last place
            try:
                part = src.obj.subset_pattern('uid', sub).copy()
                if o['flag']:
                    perm = list(range(part.n_cond))
                    r.shuffle(perm)
                    part.reorder(perm)
                if src.obj.n_rdm > 1:
                    nparts = 2 + o['u'] % 2
                    if o['a'][1] % 2 and src.obj.n_rdm >= nparts:
                        part = part[list(range(src.obj.n_rdm))[k::nparts]]       # several RDMs per partial (disjoint between partials)
                    else:
                        part = part[k % src.obj.n_rdm]
            except Exception as e:
                return self._raise('from_partials:prepare', e)
            if o['flag2']:
                # object-level descriptors that differ between the partials are demoted to rdm_descriptors
                od = dict(part.descriptors)
                v0 = od.get('session', 's1')
                od['session'] = ([[9.0], list(v0), [1.0, 2.5, 3.0]] if isinstance(v0, (list, np.ndarray)) else
                                 ['', 's1', 's9'] if isinstance(v0, str) else [0.0, 3e-9, 1e-9] if isinstance(v0, float)
                                 else [v0, v0 + 1, v0 + 2] if abs(v0) > 1000 else [0, 4, 9])[(o['a'][1] + k) % 3]
                part.descriptors = od
            parts.append(part)
        exp_od = self._expected_odesc(parts)
        kw = {}
        if o['a'][2] % 3 == 0:
            # the full list of patterns given explicitly: the union in another order, sometimes with a condition that no
            # partial holds (all its pairs are then missing)
            union = []
            for part in parts:
                union += [c for c in normlist(part.pattern_descriptors['uid']) if c not in union]
            spare = [c for c in self.pool.tables[1] if c not in union]
            if spare and o['a'][2] % 2 == 0:
                union.append(spare[o['a'][3] % len(spare)])
            r.shuffle(union)
            kw['all_patterns'] = union
            if o['a'][4] % 4 == 0 and len(union) > 2:
                # a list that lacks a condition one of the partials holds: whatever the call does with it (it refuses),
                # the caller's list stays as it was
                held = [c for c in union if any(c in normlist(p_.pattern_descriptors['uid']) for p_ in parts)]
                if held:
                    union.remove(held[o['a'][5] % len(held)])
                    kw['incomplete'] = True
        incomplete = kw.pop('incomplete', False)
        given = list(kw['all_patterns']) if 'all_patterns' in kw else None

        def _list_kept(outcome):
            if given is not None and (len(kw['all_patterns']) != len(given)
                                      or any(norm(a_) != norm(b_) for a_, b_ in zip(kw['all_patterns'], given))):
                self.pool.report('C12', 'plain_argument', f'argument-changed:from_partials:all_patterns:{outcome}',
                                 f'from_partials changed the caller\'s all_patterns list from {given} to {kw["all_patterns"]}')
            elif given is not None:
                self.ctx.probe('plain_argument_kept:from_partials:' + outcome)
        try:
            res = from_partials(parts, descriptor='uid', **kw)
        except Exception as e:
            _list_kept('raised')
            if incomplete:
                self.pool.sweep('from_partials', args=[src.sid])
                self.ctx.behaviour('from_partials', 'incomplete-list', type(e).__name__)
                return
            return self._raise('from_partials', e)
        _list_kept('returned')
        if incomplete:
            # accepted after all: nothing to compare the result with
            self.pool.sweep('from_partials', args=[src.sid])
            return
        self._check_odesc(res, exp_od, 'from_partials')
        ru, order, present = [], list(kw.get('all_patterns', [])), set()
        for part in parts:
            pr, pc = normlist(part.rdm_descriptors['uid']), normlist(part.pattern_descriptors['uid'])
            for c in pc:
                if c not in order:
                    order.append(c)
            for rr in pr:
                ru.append(rr)
        # pairs absent from a partial are missing *for the RDMs of that partial*: with unique rdm uids per partial this is
        # expressible per uid only if no uid occurs in two partials with different condition sets
        missing = set(src.sem.get('missing', ()))
        by_uid = {}
        ok = True
        for part in parts:
            pc = set(normlist(part.pattern_descriptors['uid']))
            for rr in normlist(part.rdm_descriptors['uid']):
                if rr in by_uid and by_uid[rr] != pc:
                    ok = False
                by_uid[rr] = pc
        if not ok:
            sem = None
        else:
            for rr, pc in by_uid.items():
                for i, a in enumerate(order):
                    for b in order[i + 1:]:
                        if a not in pc or b not in pc:
                            missing.add((rr, min(a, b), max(a, b)))
            sem = {'ru': ru, 'cu': order, 'missing': missing, 'dropped_keys': ('grp', 'extra', 'pos', 'xyz', 'mixed'),
                   'remap': src.sem.get('remap')}
        s = self.pool.add(res, 'rdms', sem, 'from_partials', [src.sid])
        self.pool.check_rdms(s, 'from_partials')
        # documented loss: only the chosen pattern descriptor survives from_partials (known finding if judged)
        self.pool.sweep('from_partials', args=[src.sid], produced=[s.sid])
        self.ctx.behaviour('from_partials', len(parts), o['flag'], bool(kw))

    def op_concat(self, o):
        from rsatoolbox.rdm import concat
        first = self.pick(o, sem_only=True)
        if first is None or len(set(first.sem['cu'])) < len(first.sem['cu']):
            return False
        cset = set(first.sem['cu'])
        cands = [s for s in self.rdms(True) if s.sid != first.sid and set(s.sem['cu']) == cset
                 and len(s.sem['cu']) == len(cset) and s.obj.dissimilarity_measure == first.obj.dissimilarity_measure
                 and set(s.obj.rdm_descriptors.keys()) - {'note', 'session', 'subj'} == set(first.obj.rdm_descriptors.keys()) - {'note', 'session', 'subj'}
                 and set(s.obj.pattern_descriptors.keys()) == set(first.obj.pattern_descriptors.keys())
                 and set(s.sem.get('missing', ())) == set(first.sem.get('missing', ()))
                 and (s.sem.get('remap') or {}) == (first.sem.get('remap') or {})]
        single = o['a'][5] % 6 == 0        # one object alone: concat(rdms) / concat([rdms]) is that object's content again
        if not cands and not single:
            return False
        others = []
        if not single:
            others = [cands[o['u'] % len(cands)]]
            if len(cands) > 1 and o['flag2']:
                c2 = cands[o['a'][3] % len(cands)]
                if c2.sid != others[0].sid:
                    others.append(c2)
        ops = [first] + others
        kw = {}
        if o['a'][4] % 3 == 0:
            kw['target_pdesc'] = 'uid'
        lst = [s.obj for s in ops]
        exp_od = self._expected_odesc(lst)
        try:
            if o['flag']:
                res = concat(lst if o['a'][5] % 2 else tuple(lst), **kw)
            else:
                res = concat(*lst, **kw)
        except Exception as e:
            return self._raise('concat', e)
        if len(lst) != len(ops) or any(a is not b.obj for a, b in zip(lst, ops)):
            self.pool.report('C12', 'bystander', 'bystander:concat:argument:list-elements',
                             'concat(list_of_rdms) replaced elements of the caller\'s list by other objects')
        ru = []
        missing = set()
        for s in ops:
            ru += s.sem['ru']
            missing |= set(s.sem.get('missing', ()))
        dropped = set()
        for s_ in ops:
            dropped |= set(s_.sem.get('dropped_keys', ()))
        sem = {'ru': ru, 'cu': list(first.sem['cu']), 'missing': missing, 'dropped_keys': tuple(sorted(dropped)),
               'remap': first.sem.get('remap')}
        self._check_odesc(res, exp_od, 'concat')
        st = self.pool.add(res, 'rdms', sem, 'concat', [s.sid for s in ops])
        self.pool.check_rdms(st, 'concat')
        self.pool.sweep('concat', args=[s.sid for s in ops], produced=[st.sid])
        reordered = any(s.sem['cu'] != first.sem['cu'] for s in others)
        self.ctx.behaviour('concat', len(ops), reordered, 'list' if o['flag'] else 'varargs', bool(kw))

    # ------------------------------------------------------------------ in-place ops
    def op_reorder(self, o):
        t = self.pick(o)
        if t is None:
            return False
        n = t.obj.n_cond
        r = random.Random(o['a'][0])
        p = list(range(n))
        r.shuffle(p)
        arg = np.array(p) if o['flag'] else list(p)
        guard = self._plain_guard('reorder', new_order=arg)
        try:
            t.obj.reorder(arg)
        except Exception as e:
            guard('raised')
            return self._raise('reorder', e)
        if t.sem is not None:
            t.sem['cu'] = [t.sem['cu'][i] for i in p]
        self.pool.check_rdms(t, 'reorder')
        self.pool.sweep('reorder', target=t.sid, inplace=True)
        guard()
        self.ctx.behaviour('reorder', t.op)

    def op_sort_by_alpha(self, o):
        t = self.pick(o)
        if t is None:
            return False
        keys = [k for k in ('uid', 'grp', 'extra') if k in t.obj.pattern_descriptors]
        by = keys[o['a'][0] % len(keys)]
        vals = normlist(t.obj.pattern_descriptors[by])
        if len({type(v) for v in vals}) != 1:
            return False
        try:
            t.obj.sort_by(reindex=o['flag'], **{by: 'alpha'})
        except Exception as e:
            return self._raise('sort_by_alpha', e)
        if t.sem is not None:
            order = sorted(range(len(vals)), key=lambda i: vals[i])     # Python's sort is stable
            t.sem['cu'] = [t.sem['cu'][i] for i in order]
        self.pool.check_rdms(t, 'sort_by_alpha')
        self.pool.sweep('sort_by', target=t.sid, inplace=True)
        self.ctx.behaviour('sort_by_alpha', t.op, by, len(set(vals)) < len(vals))

    def op_sort_by_list(self, o):
        t = self.pick(o)
        if t is None:
            return False
        keys = [k for k in ('uid', 'grp', 'extra') if k in t.obj.pattern_descriptors
                and len(set(normlist(t.obj.pattern_descriptors[k]))) == t.obj.n_cond]
        if not keys:
            return False
        by = keys[o['a'][0] % len(keys)]
        vals = normlist(t.obj.pattern_descriptors[by])
        r = random.Random(o['a'][1])
        new = list(vals)
        r.shuffle(new)
        arg = np.array(new) if o['flag2'] else list(new)
        guard = self._plain_guard('sort_by', order=arg)
        try:
            t.obj.sort_by(reindex=o['flag'], **{by: arg})
        except Exception as e:
            guard('raised')
            return self._raise('sort_by_list', e)
        if t.sem is not None:
            t.sem['cu'] = [t.sem['cu'][vals.index(v)] for v in new]
        self.pool.check_rdms(t, 'sort_by_list')
        self.pool.sweep('sort_by', target=t.sid, inplace=True)
        guard()
        self.ctx.behaviour('sort_by_list', t.op, by)

    def op_append(self, o):
        t = self.pick(o, sem_only=self.pool.prop != 'C12')
        if t is None:
            return False
        if t.sem is None:
            # an object without a semantic twin (a producer's result): the append itself is not judged, what it does to
            # *other* objects is (C12)
            cands = [s for s in self.rdms() if s.sid != t.sid and s.obj.n_cond == t.obj.n_cond
                     and s.obj.dissimilarity_measure == t.obj.dissimilarity_measure
                     and set(t.obj.rdm_descriptors.keys()) <= set(s.obj.rdm_descriptors.keys())]
            if not cands:
                return False
            other = cands[o['u'] % len(cands)]
            try:
                t.obj.append(other.obj)
            except Exception:
                self.ctx.probe('append_on_result_raised')
            self.pool.sweep('append', target=t.sid, args=[other.sid], inplace=True)
            self.ctx.behaviour('append', t.op, other.op, 'no-twin')
            return
        cands = [s for s in self.rdms(True) if s.sid != t.sid and s.sem['cu'] == t.sem['cu']
                 and s.obj.dissimilarity_measure == t.obj.dissimilarity_measure
                 and set(t.obj.rdm_descriptors.keys()) <= set(s.obj.rdm_descriptors.keys())
                 and ('note' in t.obj.rdm_descriptors) == ('note' in s.obj.rdm_descriptors)      # ("same shape and type")
                 and set(s.sem.get('missing', ())) == set(t.sem.get('missing', ()))
                 and (s.sem.get('remap') or {}) == (t.sem.get('remap') or {})]
        if not cands:
            return False
        other = cands[o['u'] % len(cands)]
        try:
            t.obj.append(other.obj)
        except Exception as e:
            return self._raise('append', e)
        t.sem['ru'] = t.sem['ru'] + other.sem['ru']
        self.pool.check_rdms(t, 'append')
        self.pool.sweep('append', target=t.sid, args=[other.sid], inplace=True)
        self.ctx.behaviour('append', t.op, other.op)

    def op_redo_after_inplace(self, o):
        """a selection by some descriptor, then a documented in-place operation on the *same* object, then the same selection
        with the same arguments again: the second result must describe the object as it is now (nothing remembered from
        before the in-place operation may be used)"""
        t = self.pick(o, sem_only=True)
        if t is None:
            return False
        sel = ['subset', 'subsample', 'subset_pattern', 'subsample_pattern', 'getitem_list', 'iterate'][o['a'][5] % 6]
        inpl = ['reorder', 'sort_by_alpha', 'sort_by_list', 'append'][o['a'][4] % 4]
        # the 'index' descriptor (re-written by sort_by/reorder) and the grouping descriptor are the interesting keys
        keys = ('uid', 'grp', 'extra', 'pos', 'index')
        d = t.obj.rdm_descriptors if sel in ('subset', 'subsample') else t.obj.pattern_descriptors
        avail = [k for k in keys if k in d]
        want = 'index' if o['flag'] else 'grp'
        a0 = avail.index(want) if want in avail else o['a'][0]
        o1 = {**o, 'a': [a0] + list(o['a'][1:])}
        self._force = t
        try:
            if getattr(self, 'op_' + sel)(o1) is False or not t.alive or t.sem is None:
                return False
            getattr(self, 'op_' + inpl)({**o, 'a': [o['a'][3]] + list(o['a'][1:]), 'flag': o['flag2']})
            if not t.alive or t.sem is None:
                return
            getattr(self, 'op_' + sel)(o1)
        finally:
            self._force = None
        self.ctx.probe('redo_after_inplace')

    def op_relabel(self, o):
        """the user re-assigns the values of a grouping descriptor (a renaming of the groups): every later selection,
        ordering or combination must go by the labels as they are now"""
        t = self.pick(o, sem_only=True)
        if t is None:
            return False
        axis = 'rdm' if o['flag'] else 'pattern'
        d = t.obj.rdm_descriptors if axis == 'rdm' else t.obj.pattern_descriptors
        if 'grp' not in d:
            return False
        cur = normlist(d['grp'])
        distinct = sorted(set(cur), key=lambda x: (str(type(x)), x))
        if len(distinct) < 2:
            return False
        f = dict(zip(distinct, distinct[::-1]))          # the group names swap places: same groups, other names and order
        prime = o['flag2']
        if prime:
            # selections by the old labels came first (whatever they may have memoised must not outlive the re-assignment)
            try:
                if axis == 'rdm':
                    t.obj.subset('grp', [cur[0]]), t.obj.subsample('grp', [cur[0], cur[-1]])
                else:
                    t.obj.subset_pattern('grp', [cur[0]]), t.obj.subsample_pattern('grp', [cur[0], cur[-1]])
            except Exception:
                prime = False
        new = [f[v] for v in cur]
        d['grp'] = np.array(new) if isinstance(d['grp'], np.ndarray) else new
        tab = self.pool.tables[0 if axis == 'rdm' else 1]
        remap = dict(t.sem.get('remap') or {})
        old = remap.get((axis, 'grp')) or {}
        labels = {norm(v['grp']) for v in tab.values() if 'grp' in v}
        remap[(axis, 'grp')] = {L: f.get(old.get(L, L), old.get(L, L)) for L in labels}
        t.sem = {**t.sem, 'remap': remap}
        self.pool.check_rdms(t, 'relabel')
        # an assignment to a descriptor is not among the documented in-place operations of C12: objects that share the
        # dict with the target (known aliasing findings) are retired without a report
        from .fp import fp_any
        for b in self.pool.slots:
            if b.alive and b.sid != t.sid and fp_any(b.obj) != b.snap:
                b.snap, b.sem, b.alive = fp_any(b.obj), None, False
                self.ctx.probe('retired_after_relabel')
        t.snap = fp_any(t.obj)
        self.ctx.probe('relabel')
        self.ctx.behaviour('relabel', axis, t.op)
        if prime and t.alive and t.sem is not None:
            follow = (['subset', 'subsample'] if axis == 'rdm' else ['subset_pattern', 'subsample_pattern'])[o['a'][3] % 2]
            self._force = t
            try:
                getattr(self, 'op_' + follow)({**o, 'a': [1] + list(o['a'][1:])})       # the same kind of selection, by 'grp', on the same object
            finally:
                self._force = None

    def op_array_write(self, o):
        t = self.pick(o)
        if t is None or t.obj.dissimilarities.size == 0:
            return False
        d = t.obj.dissimilarities
        k, p = o['a'][0] % d.shape[0], o['a'][1] % d.shape[1]
        try:
            d[k, p] = 777.25 + (o['a'][2] % 7)
        except ValueError:
            return False      # read-only view: nothing written
        t.sem = None          # no longer a relabelling of a root
        self.pool.sweep('array_write', target=t.sid, inplace=True)
        self.ctx.behaviour('array_write', t.op)


# ------------------------------------------------------------------------------------------------ producers (C12)
def _add_producers():
    import rsatoolbox  # noqa

    def _producer(name, call, needs_two=False, result_kind='rdms'):
        def op(self, o):
            src = self.pick(o)
            if src is None:
                return False
            args = [src]
            if needs_two:
                cands = [s for s in self.rdms() if s.obj.n_cond == src.obj.n_cond]
                args.append(cands[o['u'] % len(cands)])
            try:
                res = call(self, o, *[a.obj for a in args])
            except UnboundLocalError:
                # raised inside the library (rescale's iteration never starts when an estimate is NaN): a failed call
                self.ctx.probe(f'producer_raised:{name}')
                self.pool.sweep(name, args=[a.sid for a in args])
                return
            except (ImportError, NameError) as e:
                raise HarnessError(f'producer {name}: {e!r}')
            except Exception as e:
                if isinstance(e, AttributeError) and str(e).startswith("module '"):
                    raise HarnessError(f'producer {name}: {e!r}')      # the harness names a function that does not exist
                self.ctx.probe(f'producer_raised:{name}')
                self.pool.sweep(name, args=[a.sid for a in args])
                return
            produced = []
            outs = res if isinstance(res, (list, tuple)) else [res]
            for r in outs:
                kind = _kind_of(r)
                if kind is not None:
                    produced.append(self.pool.add(r, kind, None, name, [a.sid for a in args]).sid)
            self.pool.sweep(name, args=[a.sid for a in args], produced=produced)
            self.ctx.probe(f'producer_ok:{name}')
            self.ctx.behaviour(name, src.op)
        op.__name__ = 'op_' + name
        setattr(RdmsOps, 'op_' + name, op)

    def _kind_of(r):
        from rsatoolbox.rdm import RDMs
        from rsatoolbox.model import Model
        if isinstance(r, RDMs):
            return 'rdms'
        if isinstance(r, Model):
            return 'model'
        return None

    import rsatoolbox.rdm as R
    import importlib
    T = importlib.import_module('rsatoolbox.rdm.transform')
    _producer('rank_transform', lambda self, o, a: T.rank_transform(a))
    _producer('rank_transform_twice', lambda self, o, a: T.rank_transform(T.rank_transform(a)))
    _producer('sqrt_transform', lambda self, o, a: T.sqrt_transform(a))
    _producer('positive_transform', lambda self, o, a: T.positive_transform(a))
    _producer('minmax_transform', lambda self, o, a: T.minmax_transform(a))
    _producer('geotopological_transform', lambda self, o, a: T.geotopological_transform(a, 0.1 + (o['a'][0] % 3) / 10, 0.6 + (o['a'][1] % 4) / 10))
    _producer('geodesic_transform', lambda self, o, a: T.geodesic_transform(a))
    _producer('transform_fun', lambda self, o, a: T.transform(a, lambda x: x * 2 + 1))
    from rsatoolbox.rdm.combine import rescale as _rescale_fn
    _producer('rescale', lambda self, o, a: _rescale_fn(a, method=['evidence', 'setsize', 'simple'][o['a'][0] % 3]))
    def _mean(self, o, a):
        k = o['a'][0] % 4
        if k == 0:
            return a.mean()
        if k == 1 and 'wgt' in a.rdm_descriptors:
            return a.mean(weights='wgt')
        w = np.ones(a.dissimilarities.shape) * (1.0 + np.arange(a.n_rdm))[:, None]
        if k == 3:
            w = w.astype(np.float32)
        before = w.copy()
        r = a.mean(weights=w)
        if not np.array_equal(before, w, equal_nan=True):
            self.pool.report('C12', 'bystander', 'bystander:mean:argument:weights-array',
                             'RDMs.mean(weights=array) changed the caller\'s weights array')
        return r
    _producer('mean', _mean)
    _producer('compare', lambda self, o, a, b: R.compare(a, b, method=['cosine', 'corr', 'spearman', 'rho-a', 'tau-a', 'cosine_cov'][o['a'][0] % 6]), needs_two=True)

    def _tmpsave(self, o, a):
        # saving is among the operations of the statement (the file itself is C16's business): to a scratch file, removed at once
        import os
        import tempfile
        d = tempfile.mkdtemp(prefix='verif-c12-')
        try:
            ft = 'hdf5' if o['flag'] else 'pkl'
            a.save(os.path.join(d, 'x.' + ('h5' if o['flag'] else 'pkl')), file_type=ft, overwrite=o['flag2'])
        finally:
            import shutil
            import gc as _gc
            _gc.collect()
            shutil.rmtree(d, ignore_errors=True)
        return None
    _producer('tmpfile_save', _tmpsave)

    def _pool(self, o, a):
        from rsatoolbox.util.inference_util import pool_rdm
        return pool_rdm(a, method=['cosine', 'corr', 'spearman', 'euclid'][o['a'][0] % 4])
    _producer('pool_rdm', _pool)

    def _model(self, o, a):
        from rsatoolbox.model import ModelFixed, ModelWeighted, ModelSelect, ModelInterpolate
        cls = [ModelFixed, ModelWeighted, ModelSelect, ModelInterpolate][o['a'][0] % 4]
        m = cls('m', a)
        pred = m.predict_rdm(0 if cls is ModelSelect else None)
        m.predict(0 if cls is ModelSelect else None)
        return [m, pred]
    _producer('model_predict', _model)

    def _model_fit(self, o, a, b):
        from rsatoolbox.model import ModelWeighted, ModelSelect
        from rsatoolbox.model.fitter import fit_regress
        meth = ['cosine', 'corr', 'cosine_cov', 'corr_cov'][o['a'][1] % 4]
        if o['flag']:
            m = ModelSelect('m', a)
            m.fit(b, method=meth)
        else:
            m = ModelWeighted('m', a)
            if o['flag2']:
                fit_regress(m, b, method=meth)
            else:
                fit_regress(m, b, method=meth, pattern_idx=np.arange(a.n_cond), pattern_descriptor='index')
        return m
    _producer('model_fit', _model_fit, needs_two=True)

    def _eval_fixed(self, o, a, b):
        from rsatoolbox.model import ModelFixed
        from rsatoolbox.inference import eval_fixed
        from rsatoolbox.model import ModelWeighted
        # the model is built on the caller's RDMs object itself (a model keeps the object it is given), on one RDM of it,
        # or as a weighted model of its RDMs evaluated at given weights
        how = o['a'][2] % 4
        theta = None
        if how == 0:
            m = ModelFixed('m', a[0])
        elif how == 1 or a.n_rdm < 2:
            m = ModelFixed('m', a)
        else:
            m = ModelWeighted('m', a)
            theta = np.ones(a.n_rdm) if how == 2 else np.arange(1.0, a.n_rdm + 1)
        r = eval_fixed(m, b, theta=theta, method=['cosine', 'corr'][o['a'][3] % 2])
        r.test_all() if b.n_rdm > 2 else None
        # (a model built on the caller's object keeps that object -- the listed model_* finding; it does not join the pool)
        return m if how == 0 else None
    _producer('eval_fixed', _eval_fixed, needs_two=True)

    def _boot(self, o, a):
        from rsatoolbox.inference import bootstrap_sample, bootstrap_sample_rdm, bootstrap_sample_pattern
        k = o['a'][0] % 3
        if k == 0:
            return bootstrap_sample(a, 'grp', 'grp')[0]
        if k == 1:
            return bootstrap_sample_rdm(a, 'uid')[0]
        return bootstrap_sample_pattern(a, 'index')[0]
    _producer('bootstrap_sample', _boot)

    def _folds(self, o, a):
        from rsatoolbox.inference.crossvalsets import (sets_k_fold, sets_leave_one_out_rdm, sets_k_fold_pattern,
                                                        sets_random, sets_of_k_pattern)
        k = o['a'][0] % 7
        pdesc = self._by(a, 'pattern', o['a'][1])
        rdesc = self._by(a, 'rdm', o['a'][2])
        gp = len(set(normlist(a.pattern_descriptors[pdesc])))
        gr = len(set(normlist(a.rdm_descriptors[rdesc])))
        if k == 0:
            tr, te, ce = sets_k_fold(a, k_rdm=min(2, gr), k_pattern=min(2, gp), random=o['flag'], pattern_descriptor=pdesc, rdm_descriptor=rdesc)
        elif k == 1:
            tr, te, ce = sets_leave_one_out_rdm(a, rdesc)
        elif k == 2:
            tr, te, ce = sets_k_fold_pattern(a, pdesc, k=min(2, gp), random=o['flag'])
        elif k == 3:
            tr, te, ce = sets_random(a, n_rdm=0 if gr < 2 else 1, n_pattern=0 if gp < 2 else 1, n_cv=2, pattern_descriptor=pdesc, rdm_descriptor=rdesc)
        elif k == 4:
            tr, te, ce = sets_of_k_pattern(a, pattern_descriptor=pdesc, k=1, random=o['flag'])
        elif k == 5:
            from rsatoolbox.inference.crossvalsets import sets_k_fold_rdm
            tr, te, ce = sets_k_fold_rdm(a, k_rdm=max(1, min(2, gr)), random=True, rdm_descriptor=rdesc)
        else:
            from rsatoolbox.inference.crossvalsets import sets_of_k_rdm, sets_leave_one_out_pattern
            if gr >= 2:
                tr, te, ce = sets_of_k_rdm(a, rdm_descriptor=rdesc, k=1, random=True)
            else:
                tr, te, ce = sets_leave_one_out_pattern(a, pdesc)
        return [tr[0][0], te[-1][0]]
    _producer('sets_k_fold', _folds)

    def _bnc(self, o, a):
        from rsatoolbox.inference.noise_ceiling import boot_noise_ceiling
        return boot_noise_ceiling(a, method='cosine', rdm_descriptor='grp')
    _producer('boot_noise_ceiling', _bnc)

    def op_get_vectors_write(self, o):
        """array write on the result of get_vectors()/get_matrices(): must not alter the source"""
        src = self.pick(o)
        if src is None or src.obj.dissimilarities.size == 0:
            return False
        which = 'get_matrices' if o['flag'] else 'get_vectors'
        try:
            arr = getattr(src.obj, which)()
            idx = tuple(a % s for a, s in zip(o['a'], arr.shape))
            arr[idx] = 555.5
        except Exception:
            return False
        self.pool.sweep(which + '+array_write', args=[src.sid])
        if which == 'get_matrices' and src.alive:
            # ... nor what the source hands out next: its square form is still that of its own vectors
            try:
                again = np.asarray(src.obj.get_matrices())
                vec = np.asarray(src.obj.dissimilarities, dtype=float)
                exp = np.array([square_from_vector(v, src.obj.n_cond) for v in vec]).reshape(again.shape)
                if not np.array_equal(again, exp, equal_nan=True):
                    self.pool.report('C12', 'bystander', 'bystander:square-form-after-array_write:source',
                                     'after an array write on the matrices returned by get_matrices(), the source returns a '
                                     'square form that is no longer that of its own dissimilarity vectors')
                self.ctx.probe('square_form_reread')
            except Exception as e:
                self.pool.report('C12', 'bystander', f'bystander:square-form-after-array_write:raises:{type(e).__name__}', repr(e))
        self.ctx.behaviour(which + '_write', src.op)
    RdmsOps.op_get_vectors_write = op_get_vectors_write


_add_producers()
