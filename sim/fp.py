"""Fingerprints and equality (DESIGN Appendix E)."""
from __future__ import annotations
import numpy as np
from .gen import norm

MANAGED = ('index',)


def fp_array(a):
    a = np.asarray(a)
    if a.dtype == object:
        return ('obj', a.shape, repr(a.tolist()))
    return (a.shape, a.dtype.str, np.ascontiguousarray(a).tobytes())


def fp_value(v):
    """normalised descriptor value for C12: containers are normalised (ndarray/tuple -> list, Appendix E), element types
    are not (1 != 1.0, 'a' != b'a')"""
    if isinstance(v, np.ndarray) and v.size > 4096 and v.dtype.kind in 'fiub':
        import hashlib
        return ('bigarray', v.shape, v.dtype.str, hashlib.sha1(np.ascontiguousarray(v).tobytes()).hexdigest())
    if isinstance(v, np.ndarray):
        if v.dtype == object or v.ndim == 0:
            return fp_value(v.tolist())
        return ('list', tuple(fp_value(x) for x in v.tolist())) if v.ndim == 1 else \
            ('list', tuple(fp_value(x) for x in v))
    if isinstance(v, (list, tuple)):
        return ('list', tuple(fp_value(x) for x in v))
    if isinstance(v, dict):
        return ('dict', tuple(sorted((str(k), fp_value(x)) for k, x in v.items())))
    v = norm(v)
    return (type(v).__name__, repr(v))


def fp_dict(d, drop=MANAGED):
    if d is None:
        return None
    if not isinstance(d, dict):      # e.g. RDMs.mean(weights=<descriptor name>) stores a *set* of pairs as descriptors
        return ('non-dict', type(d).__name__, repr(sorted(map(repr, d))) if isinstance(d, (set, frozenset, list, tuple)) else repr(d))
    return tuple(sorted((str(k), fp_value(v)) for k, v in d.items() if k not in drop))


def fp_rdms(o):
    return {'array': fp_array(o.dissimilarities),
            'descriptors': fp_dict(o.descriptors, drop=()),
            'rdm_descriptors': fp_dict(o.rdm_descriptors),
            'pattern_descriptors': fp_dict(o.pattern_descriptors),
            'measure': repr(o.dissimilarity_measure),
            'dims': (o.n_rdm, o.n_cond)}


def fp_dataset(o):
    out = {'array': fp_array(o.measurements),
           'descriptors': fp_dict(o.descriptors, drop=()),
           'obs_descriptors': fp_dict(o.obs_descriptors, drop=()),          # (datasets have no library-managed 'index')
           'channel_descriptors': fp_dict(o.channel_descriptors, drop=()),
           'dims': (o.n_obs, o.n_channel)}
    if hasattr(o, 'time_descriptors'):
        out['time_descriptors'] = fp_dict(o.time_descriptors, drop=())
        out['dims'] = out['dims'] + (o.n_time,)
    return out


def fp_model(m):
    out = {'class': type(m).__name__, 'name': repr(m.name), 'n_param': repr(getattr(m, 'n_param', None))}
    if getattr(m, 'rdm_obj', None) is not None:
        for k, v in fp_rdms(m.rdm_obj).items():
            out['rdm_obj.' + k] = v
    if hasattr(m, 'rdm') and isinstance(getattr(m, 'rdm'), np.ndarray):
        out['rdm'] = fp_array(m.rdm)
    return out


def fp_any(o):
    """fingerprint of an arbitrary argument: returns dict field -> fingerprint"""
    from rsatoolbox.rdm import RDMs
    from rsatoolbox.data.base import DatasetBase
    from rsatoolbox.model import Model
    if isinstance(o, RDMs):
        return fp_rdms(o)
    if isinstance(o, DatasetBase):
        return fp_dataset(o)
    if isinstance(o, Model):
        return fp_model(o)
    if isinstance(o, np.ndarray):
        return {'array': fp_array(o)}
    if isinstance(o, dict):
        return {'dict': fp_dict(o, drop=())}
    if isinstance(o, (list, tuple)):
        out = {}
        for i, x in enumerate(o):
            for k, v in fp_any(x).items():
                out[f'[{i}].{k}'] = v
        out['len'] = len(o)
        return out
    if hasattr(o, 'evaluations') and hasattr(o, 'models'):
        out = {'evaluations': fp_array(o.evaluations), 'noise_ceiling': fp_array(o.noise_ceiling),
               'variances': None if o.variances is None else fp_array(o.variances)}
        return out
    return {'repr': repr(o)[:200]}


def diff_fields(a, b):
    """names of fingerprint fields that differ"""
    keys = sorted(set(a) | set(b))
    return [k for k in keys if a.get(k) != b.get(k)]
