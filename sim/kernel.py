"""Simulation kernel: seed derivation, per-run context, event log, digests.

One integer decides everything: VERIF_SEED -> run_seed(i) -> (plan stream, serve stream).
Nothing in here reads a wall clock, the numpy global RNG, hash() of strings or id().
"""
from __future__ import annotations
import re
import hashlib
import json
import random
from collections import Counter

import numpy as np


def H(*parts) -> int:
    """Stable 63-bit hash of a tuple of JSON-able parts (SHA-256, first 8 bytes)."""
    s = json.dumps(parts, sort_keys=True, default=_jsonable).encode()
    return int.from_bytes(hashlib.sha256(s).digest()[:8], 'big') >> 1


def _jsonable(o):
    if isinstance(o, np.ndarray):
        return o.tolist()
    if isinstance(o, np.generic):
        return o.item()
    if isinstance(o, (set, frozenset)):
        return sorted(o)
    if isinstance(o, tuple):
        return list(o)
    if isinstance(o, bytes):
        return o.hex()
    return repr(o)


def canon(obj) -> str:
    return json.dumps(obj, sort_keys=True, default=_jsonable)


def run_seed(verif_seed: int, prop: str, tier: str, index: int) -> int:
    return H('run', int(verif_seed), prop, tier, int(index))


class StopRun(Exception):
    """Raised to end a run at the first unlisted violation."""


class HarnessError(Exception):
    """Something wrong with the harness/plan (never a VIOLATION)."""


class ReplayDiverged(HarnessError):
    pass


class Ctx:
    """Per-run context: logical clock, event log, violations, counters."""

    def __init__(self, prop: str, known_open=(), record_events=True):
        self.prop = prop
        self.seq = 0                     # logical clock = global event sequence number
        self.events = []                 # JSON-able event log (for digest / replay file)
        self._hash = hashlib.sha256()
        self.violations = []             # unlisted violations (dicts)
        self.known_hits = Counter()      # signature -> count (listed open findings seen)
        self.known_open = sorted(set(known_open))
        self.probes = Counter()
        self.faults = Counter()
        self.behaviours = set()          # distinct behaviour signatures reached
        self.nontrivial = False
        self.components = set()
        self.notes = {}                  # free-form JSON-able notes for the evidence (e.g. sweep status)
        self.record_events = record_events
        self.stop_on_violation = True

    # -- logical time / log ---------------------------------------------------
    def tick(self, kind: str, **data) -> int:
        self.seq += 1
        ev = {'seq': self.seq, 'seam': kind}
        ev.update(data)
        s = canon(ev)
        self._hash.update(s.encode())
        if self.record_events and len(self.events) < 4000:
            self.events.append(json.loads(s))
        return self.seq

    def digest(self) -> str:
        h = self._hash.copy()
        h.update(canon({'viol': [(v['check'], v['signature']) for v in self.violations],
                        'known': sorted(self.known_hits.items())}).encode())
        return h.hexdigest()

    # -- reporting ------------------------------------------------------------
    def probe(self, name: str, n: int = 1):
        self.probes[name] += n

    def fault(self, name: str, n: int = 1):
        self.faults[name] += n

    def behaviour(self, *sig):
        self.behaviours.add('|'.join(str(s) for s in sig))

    def violation(self, check: str, signature: str, message: str, **detail) -> bool:
        """Report a mismatch. Returns True if it is a listed (open) known finding that is
        tolerated (caller should resynchronise); otherwise records it and ends the run."""
        full_sig = f'{self.prop}:{signature}'
        for pat in self.known_open:      # listed open findings; a pattern names one call site / history class
            if pat == full_sig or ('*' in pat and re.fullmatch(re.escape(pat).replace('\\*', '.*'), full_sig)):
                self.known_hits[pat] += 1
                return True
        v = {'property': self.prop, 'check': check, 'signature': full_sig,
             'message': message[:2000], 'at_seq': self.seq}
        if detail:
            v['detail'] = json.loads(canon(detail))
        self.violations.append(v)
        self.tick('violation', check=check, signature=full_sig)
        if self.stop_on_violation:
            raise StopRun()
        return False


class PlanRng(random.Random):
    """Plan stream helpers (all choices materialised into the plan)."""

    def pick(self, seq):
        return seq[self.randrange(len(seq))]

    def chance(self, p: float) -> bool:
        return self.random() < p

    def subset(self, seq, pmin=0.0, pmax=1.0):
        p = self.uniform(pmin, pmax)
        return [x for x in seq if self.random() < p]

    def wpick(self, weighted):
        """weighted: list of (item, weight)"""
        tot = sum(w for _, w in weighted)
        r = self.random() * tot
        acc = 0.0
        for it, w in weighted:
            acc += w
            if r < acc:
                return it
        return weighted[-1][0]
