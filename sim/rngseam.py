"""RNG seam: replaces the numpy *global* legacy RNG entry points (module attributes of
numpy.random) for the duration of a run. Every request coming from rsatoolbox (or from a check)
is answered by the simulator from the run's `serve` stream subject to the draw-fault plan, and
logged. Requests from other callers (scipy, sklearn ...) pass through to the real functions, whose
global state is seeded from the serve seed at install time, so they are deterministic too.

Each request k is answered from its own PRNG random.Random(H(serve_seed, k)), so the answer to
request k never depends on the size of earlier requests.

Draw faults are outcomes the true RNG can produce with positive probability.
"""
from __future__ import annotations
import random
import sys

import numpy as np
import numpy.random as npr

from .kernel import H, ReplayDiverged

_REAL = {}
_NAMES = ['randint', 'shuffle', 'permutation', 'rand', 'random', 'random_sample', 'uniform',
          'choice', 'randn', 'normal', 'standard_normal', 'seed', 'default_rng', 'RandomState',
          'random_integers', 'sample', 'ranf', 'bytes']

SIM_PREFIXES = ('rsatoolbox', 'checks', 'c0', 'c1', 'sim', '__main__')

RANDINT_FAULTS = ['all_same', 'few_unique', 'identity', 'max_index', 'min_index', 'perm',
                  'two_unique', 'three_unique']
SHUFFLE_FAULTS = ['identity_shuffle', 'reversed_shuffle', 'rotate_shuffle', 'swap_shuffle']

EPS = 2.0 ** -20


def _caller_module(depth=2):
    try:
        f = sys._getframe(depth)
    except ValueError:
        return '?'
    return f.f_globals.get('__name__', '?')


class RngSeam:
    def __init__(self, ctx, serve_seed: int, fault_cfg=None, script=None, strict_script=False):
        self.ctx = ctx
        self.serve_seed = int(serve_seed)
        self.cfg = fault_cfg or {'rate': 0.0, 'kinds': []}
        self.script = script          # dict str(k) -> {'fn':..., 'result':...} or None
        self.strict = strict_script
        self.k = 0                    # request counter
        self.served = []              # in-memory list of served requests (dicts with arrays)
        self.installed = False
        self.forced = []              # stack of forced kinds for next requests (checks may push)
        self.k_targets = list(self.cfg.get('k_targets', []))

    # ------------------------------------------------------------------ install
    def install(self):
        assert not self.installed
        for n in _NAMES:
            if hasattr(npr, n):
                _REAL[n] = getattr(npr, n)
        _REAL['seed'](self.serve_seed % (2 ** 32))
        self._real_state = None
        for n in ['randint', 'shuffle', 'permutation', 'rand', 'random', 'random_sample',
                  'uniform', 'choice', 'randn', 'normal', 'standard_normal', 'seed',
                  'default_rng', 'sample', 'ranf']:
            # (RandomState is a class used in isinstance() checks by third parties: not replaced)
            if n in _REAL:
                setattr(npr, n, self._wrap(n))
        self.installed = True
        return self

    def uninstall(self):
        if self.installed:
            for n, f in _REAL.items():
                setattr(npr, n, f)
            self.installed = False

    def __enter__(self):
        return self.install()

    def __exit__(self, *a):
        self.uninstall()

    def _wrap(self, name):
        seam = self
        real = _REAL[name]
        impl = getattr(self, '_sim_' + name, None)
        if impl is None:
            alias = {'random_sample': '_sim_random', 'sample': '_sim_random', 'ranf': '_sim_random'}
            impl = getattr(self, alias.get(name, ''), None)

        def wrapper(*a, **kw):
            caller = _caller_module(2)
            if not caller.startswith(SIM_PREFIXES) or impl is None:
                return real(*a, **kw)
            return impl(caller, *a, **kw)
        wrapper.__name__ = name
        wrapper._verif_seam = True
        return wrapper

    # ------------------------------------------------------------------ helpers
    def _next(self):
        k = self.k
        self.k += 1
        return k, random.Random(H('serve', self.serve_seed, k))

    def _scripted(self, k, fn, shape):
        if self.script is None:
            return None
        ent = self.script.get(str(k))
        if ent is None:
            if self.strict:
                raise ReplayDiverged(f'request {k} ({fn}) not in script')
            return None
        if ent.get('fn') != fn or list(ent.get('shape', [])) != list(shape):
            if self.strict:
                raise ReplayDiverged(f'request {k}: script has {ent.get("fn")}{ent.get("shape")},'
                                     f' code asked {fn}{list(shape)}')
            return None
        return ent

    def _pick_fault(self, r, menu):
        if self.forced:
            kind = self.forced.pop(0)
            return kind
        rate = self.cfg.get('rate', 0.0)
        kinds = [kk for kk in self.cfg.get('kinds', []) if kk in menu]
        if kinds and r.random() < rate:
            return kinds[r.randrange(len(kinds))]
        return 'uniform'

    def _log(self, k, fn, caller, args, shape, fault, result, big=False):
        res = np.asarray(result)
        if big or res.size > 64:
            rj = {'digest': H(res.tolist()), 'n': int(res.size)}
        else:
            rj = res.tolist()
        self.ctx.tick('rng', k=k, fn=fn, args=args, caller=caller, fault=fault, result=rj)
        self.ctx.nontrivial = True
        if fault != 'uniform' and fault != 'random_shuffle':
            self.ctx.fault(fault)
        ent = {'k': k, 'fn': fn, 'caller': caller, 'args': args, 'shape': list(shape),
               'fault': fault, 'result': result, 'seq': self.ctx.seq}
        self.served.append(ent)
        return ent

    def script_of_served(self):
        """A script (JSON-able) reproducing exactly what was served in this run."""
        out = {}
        for e in self.served:
            res = np.asarray(e['result'])
            if res.dtype.kind == 'f':
                val = [float(x).hex() for x in res.ravel().tolist()]
                out[str(e['k'])] = {'fn': e['fn'], 'shape': e['shape'], 'hex': val,
                                    'fault': e['fault']}
            else:
                out[str(e['k'])] = {'fn': e['fn'], 'shape': e['shape'],
                                    'result': res.ravel().tolist(), 'fault': e['fault']}
        return out

    @staticmethod
    def _from_script(ent, shape, dtype):
        if 'hex' in ent:
            arr = np.array([float.fromhex(h) for h in ent['hex']], dtype=float)
        else:
            arr = np.array(ent['result'], dtype=dtype)
        return arr.reshape(shape)

    # ------------------------------------------------------------------ integer draws
    def _draw_ints(self, r, low, high, n, kind):
        span = high - low
        if span <= 0:
            raise ValueError('low >= high')
        if kind == 'uniform' or n == 0:
            return [low + r.randrange(span) for _ in range(n)]
        if kind == 'all_same':
            v = low + r.randrange(span)
            return [v] * n
        if kind == 'max_index':
            return [high - 1] * n
        if kind == 'min_index':
            return [low] * n
        if kind == 'identity':
            return [low + (i % span) for i in range(n)]
        if kind == 'perm':
            base = [low + (i % span) for i in range(n)]
            r.shuffle(base)
            return base
        if kind in ('few_unique', 'two_unique', 'three_unique'):
            if kind == 'two_unique':
                kk = 2
            elif kind == 'three_unique':
                kk = 3
            else:
                cands = [t for t in self.k_targets if 1 <= t <= min(span, n)] or [2, 3]
                kk = cands[r.randrange(len(cands))]
            kk = max(1, min(kk, span, n))
            vals = r.sample(range(low, high), kk)
            out = list(vals) + [vals[r.randrange(kk)] for _ in range(n - kk)]
            r.shuffle(out)
            return out
        return [low + r.randrange(span) for _ in range(n)]

    def _sim_randint(self, caller, low, high=None, size=None, dtype=int):
        if high is None:
            low, high = 0, low
        low, high = int(low), int(high)
        shape = () if size is None else (tuple(size) if isinstance(size, (tuple, list)) else (int(size),))
        n = int(np.prod(shape)) if shape != () else 1
        k, r = self._next()
        ent = self._scripted(k, 'randint', shape)
        if ent is not None:
            res = self._from_script(ent, shape, np.int64)
            if res.size and (res.min() < low or res.max() >= high):
                if self.strict:
                    raise ReplayDiverged(f'request {k}: scripted randint outside [{low},{high})')
                ent = None
            else:
                fault = ent.get('fault', 'scripted')
        if ent is None:
            fault = self._pick_fault(r, RANDINT_FAULTS)
            res = np.array(self._draw_ints(r, low, high, n, fault), dtype=np.int64).reshape(shape)
        self._log(k, 'randint', caller, [low, high, list(shape)], shape, fault, res)
        if size is None:
            return int(res)
        return res.astype(dtype, copy=False) if dtype is not int else res

    # ------------------------------------------------------------------ permutations
    def _draw_perm(self, r, n, kind):
        idx = list(range(n))
        if kind == 'identity_shuffle' or n < 2:
            return idx
        if kind == 'reversed_shuffle':
            return idx[::-1]
        if kind == 'rotate_shuffle':
            s = 1 + r.randrange(n - 1)
            return idx[s:] + idx[:s]
        if kind == 'swap_shuffle':
            i, j = r.sample(range(n), 2)
            idx[i], idx[j] = idx[j], idx[i]
            return idx
        r.shuffle(idx)
        return idx

    def _perm_request(self, fn, caller, n):
        k, r = self._next()
        ent = self._scripted(k, fn, (n,))
        if ent is not None:
            perm = [int(x) for x in ent['result']]
            if sorted(perm) != list(range(n)):
                raise ReplayDiverged(f'request {k}: scripted {fn} is not a permutation of {n}')
            fault = ent.get('fault', 'scripted')
        else:
            fault = self._pick_fault(r, SHUFFLE_FAULTS)
            if fault == 'uniform':
                fault = 'random_shuffle'
            perm = self._draw_perm(r, n, fault)
        self._log(k, fn, caller, [n], (n,), fault, np.array(perm, dtype=np.int64))
        return perm

    def _sim_shuffle(self, caller, x):
        n = len(x)
        perm = self._perm_request('shuffle', caller, n)
        if isinstance(x, np.ndarray):
            x[...] = x[perm].copy()
        else:
            vals = [x[i] for i in perm]
            for i, v in enumerate(vals):
                x[i] = v
        return None

    def _sim_permutation(self, caller, x):
        if isinstance(x, (int, np.integer)):
            perm = self._perm_request('permutation', caller, int(x))
            return np.array(perm, dtype=np.int64)
        arr = np.array(x)
        perm = self._perm_request('permutation', caller, len(arr))
        return arr[perm]

    # ------------------------------------------------------------------ floats
    def _floats(self, fn, caller, shape, args):
        shape = tuple(int(s) for s in shape)
        n = int(np.prod(shape)) if shape != () else 1
        k, r = self._next()
        ent = self._scripted(k, fn, shape)
        if ent is not None:
            res = self._from_script(ent, shape, float)
            fault = ent.get('fault', 'scripted')
        else:
            res = np.array([EPS + (1 - 2 * EPS) * r.random() for _ in range(n)],
                           dtype=float).reshape(shape)
            fault = 'uniform'
        self._log(k, fn, caller, args, shape, fault, res, big=True)
        return res

    @staticmethod
    def _shape_of(size):
        if size is None:
            return ()
        if isinstance(size, (tuple, list)):
            return tuple(int(s) for s in size)
        return (int(size),)

    def _sim_uniform(self, caller, low=0.0, high=1.0, size=None):
        shape = self._shape_of(size)
        u = self._floats('uniform', caller, shape, [float(low), float(high), list(shape)])
        res = low + (high - low) * u
        return float(res) if size is None else res

    def _sim_rand(self, caller, *shape):
        u = self._floats('rand', caller, shape, [list(shape)])
        return float(u) if shape == () else u

    def _sim_random(self, caller, size=None):
        shape = self._shape_of(size)
        u = self._floats('random', caller, shape, [list(shape)])
        return float(u) if size is None else u

    def _norm(self, u):
        from scipy.special import ndtri
        return ndtri(u)

    def _sim_randn(self, caller, *shape):
        u = self._floats('randn', caller, shape, [list(shape)])
        z = self._norm(u)
        return float(z) if shape == () else z

    def _sim_standard_normal(self, caller, size=None):
        shape = self._shape_of(size)
        z = self._norm(self._floats('standard_normal', caller, shape, [list(shape)]))
        return float(z) if size is None else z

    def _sim_normal(self, caller, loc=0.0, scale=1.0, size=None):
        shape = self._shape_of(size)
        z = self._norm(self._floats('normal', caller, shape, [list(shape)]))
        res = loc + scale * z
        return float(res) if size is None else res

    def _sim_choice(self, caller, a, size=None, replace=True, p=None):
        arr = np.arange(a) if isinstance(a, (int, np.integer)) else np.asarray(a)
        n_pop = len(arr)
        shape = self._shape_of(size)
        n = int(np.prod(shape)) if shape != () else 1
        if p is not None:
            # weighted choice: serve floats and invert the cdf (logged as such)
            u = self._floats('choice_p', caller, (n,), [n_pop, list(shape), 'p'])
            cdf = np.cumsum(np.asarray(p, dtype=float))
            idx = np.minimum(np.searchsorted(cdf, u * cdf[-1]), n_pop - 1)
            if not replace:
                raise NotImplementedError('weighted choice without replacement not simulated')
        elif replace:
            k, r = self._next()
            ent = self._scripted(k, 'choice', shape)
            if ent is not None:
                idx = self._from_script(ent, (n,), np.int64)
                fault = ent.get('fault', 'scripted')
            else:
                fault = self._pick_fault(r, RANDINT_FAULTS)
                idx = np.array(self._draw_ints(r, 0, n_pop, n, fault), dtype=np.int64)
            self._log(k, 'choice', caller, [n_pop, list(shape), 'replace'], shape, fault, idx)
        else:
            perm = self._perm_request('choice_noreplace', caller, n_pop)
            idx = np.array(perm[:n], dtype=np.int64)
        res = arr[idx].reshape(shape) if shape != () else arr[idx][0]
        return res

    def _sim_seed(self, caller, seed=None):
        self.ctx.tick('rng', k=-1, fn='seed', caller=caller, args=[None if seed is None else int(seed)])
        return None

    # ------------------------------------------------------------------ generator objects
    def _sim_default_rng(self, caller, seed=None):
        self.ctx.tick('rng', k=-1, fn='default_rng', caller=caller)
        return _SimGenerator(self, caller)

    def _sim_RandomState(self, caller, seed=None):
        self.ctx.tick('rng', k=-1, fn='RandomState', caller=caller)
        return _SimGenerator(self, caller)


class _SimGenerator:
    """Sim-backed stand-in for numpy Generator / RandomState objects created by rsatoolbox."""

    def __init__(self, seam, caller):
        self._s = seam
        self._c = caller

    def integers(self, low, high=None, size=None, dtype=np.int64, endpoint=False):
        if high is None:
            low, high = 0, low
        if endpoint:
            high = high + 1
        return self._s._sim_randint(self._c, low, high, size)

    def randint(self, low, high=None, size=None, dtype=int):
        return self._s._sim_randint(self._c, low, high, size)

    def choice(self, a, size=None, replace=True, p=None, axis=0, shuffle=True):
        return self._s._sim_choice(self._c, a, size, replace, p)

    def shuffle(self, x, axis=0):
        return self._s._sim_shuffle(self._c, x)

    def permutation(self, x, axis=0):
        return self._s._sim_permutation(self._c, x)

    def random(self, size=None, dtype=float, out=None):
        return self._s._sim_random(self._c, size)

    random_sample = random

    def rand(self, *shape):
        return self._s._sim_rand(self._c, *shape)

    def randn(self, *shape):
        return self._s._sim_randn(self._c, *shape)

    def uniform(self, low=0.0, high=1.0, size=None):
        return self._s._sim_uniform(self._c, low, high, size)

    def normal(self, loc=0.0, scale=1.0, size=None):
        return self._s._sim_normal(self._c, loc, scale, size)

    def standard_normal(self, size=None, dtype=float, out=None):
        return self._s._sim_standard_normal(self._c, size)

    def seed(self, seed=None):
        return None
