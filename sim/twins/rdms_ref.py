"""Reference reading of an RDMs object whose values are identity-encoded (sim.gen.enc).
Never uses the library's ==, subset, reorder or vector<->matrix helpers."""
from __future__ import annotations
from collections import Counter
import numpy as np
from ..gen import enc, norm, normlist


def uid_seqs(obj):
    return normlist(obj.rdm_descriptors['uid']), normlist(obj.pattern_descriptors['uid'])


def check_assoc(obj, rdm_tab, pat_tab, nan_cells, value_fn=enc, check_desc=True, ignore_keys=('index',)):
    """Returns a list of (clause, message) problems; empty if obj is a faithful relabelling."""
    probs = []
    try:
        ru, cu = uid_seqs(obj)
    except KeyError as e:
        return [('descriptors', f'uid descriptor lost: {e!r}')]
    d = np.asarray(obj.dissimilarities)
    nr, nc = len(ru), len(cu)
    if d.ndim != 2 or d.shape != (nr, nc * (nc - 1) // 2):
        return [('shape', f'dissimilarities shape {d.shape} vs {nr} rdm uids, {nc} condition uids')]
    if obj.n_rdm != nr or obj.n_cond != nc:
        probs.append(('shape', f'n_rdm/n_cond = {obj.n_rdm}/{obj.n_cond} but descriptors say {nr}/{nc}'))
    for r in ru:
        if r not in rdm_tab:
            return probs + [('content', f'rdm uid {r} is not in the source')]
    for c in cu:
        if c not in pat_tab:
            return probs + [('content', f'condition uid {c} is not in the source')]
    p = 0
    for i in range(nc):
        for j in range(i + 1, nc):
            a, b = cu[i], cu[j]
            col = d[:, p]
            for k, r in enumerate(ru):
                v = col[k]
                if a == b:
                    if not np.isnan(v):
                        probs.append(('nan', f'entry rdm uid {r} pos ({i},{j}) pairs two copies of condition {a} '
                                             f'but is {v!r}, not NaN'))
                elif (r, min(a, b), max(a, b)) in nan_cells:
                    if not np.isnan(v):
                        probs.append(('assoc', f'source-NaN entry rdm {r} cond ({a},{b}) became {v!r}'))
                else:
                    e = value_fn(r, a, b)
                    if np.isnan(v):
                        probs.append(('nan', f'entry rdm uid {r} conditions ({a},{b}) at pos ({i},{j}) is NaN; '
                                             f'source value {e}'))
                    elif v != e:
                        probs.append(('assoc', f'entry rdm uid {r} conditions ({a},{b}) at pos ({i},{j}) is {v!r}; '
                                               f'source value {e}'))
                if len(probs) > 5:
                    return probs
            p += 1
    if check_desc:
        for tab, seq, desc, what in ((rdm_tab, ru, obj.rdm_descriptors, 'rdm'),
                                     (pat_tab, cu, obj.pattern_descriptors, 'pattern')):
            keys = set()
            for u in seq:
                keys.update(tab[u].keys())
            for key in sorted(keys):
                if key in ignore_keys:
                    continue
                if key not in desc:
                    probs.append(('descriptors', f'{what} descriptor {key!r} lost'))
                    continue
                vals = normlist(desc[key])
                if len(vals) != len(seq):
                    probs.append(('descriptors', f'{what} descriptor {key!r} has length {len(vals)} != {len(seq)}'))
                    continue
                for pos, u in enumerate(seq):
                    if key == 'note' and key not in tab[u] and vals[pos] is not None:
                        # a descriptor only some of the combined objects carry: None for the items of the others
                        probs.append(('descriptors', f'{what} uid {u} at pos {pos}: its source object has no descriptor {key!r}, '
                                                     f'the result gives it {vals[pos]!r} (None expected)'))
                        break
                    if key in tab[u] and vals[pos] != norm(tab[u][key]):
                        probs.append(('descriptors', f'{what} uid {u} at pos {pos}: descriptor {key!r} = '
                                                     f'{vals[pos]!r}, source has {norm(tab[u][key])!r}'))
                        break
    return probs


def members(tab, key, value):
    """uids (in table order) whose descriptor `key` equals value"""
    return [u for u, d in tab.items() if norm(d[key]) == norm(value)]


def multiset(seq):
    return Counter(seq)
