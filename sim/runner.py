"""Runner: executes plans of one check module under caps, in a fork pool; aggregates evidence;
handles known findings; minimises and writes replay files for unlisted violations."""
from __future__ import annotations
import contextlib
import gc
import faulthandler
import io
import importlib.util
import json
import os
import signal
import subprocess
import sys
import time
import traceback
from collections import Counter
from concurrent.futures import ProcessPoolExecutor, wait, FIRST_COMPLETED
from concurrent.futures.process import BrokenProcessPool
import multiprocessing as mp

from .kernel import Ctx, StopRun, HarnessError, PlanRng, run_seed, canon, H

VERIF = os.path.dirname(os.path.dirname(os.path.abspath(__file__)))
KNOWN_FILE = os.path.join(VERIF, 'known_findings.json')

_MODS = {}


def load_check(prop: str):
    if prop in _MODS:
        return _MODS[prop]
    path = os.path.join(VERIF, 'checks', prop.lower() + '.py')
    name = 'checks.' + prop.lower()
    spec = importlib.util.spec_from_file_location(name, path)
    mod = importlib.util.module_from_spec(spec)
    sys.modules[name] = mod
    spec.loader.exec_module(mod)
    _MODS[prop] = mod
    return mod


def load_known(prop=None):
    try:
        with open(KNOWN_FILE) as f:
            ents = json.load(f)['findings']
    except FileNotFoundError:
        ents = []
    if prop is not None:
        ents = [e for e in ents if e['property'] == prop]
    return ents


def known_open_sigs(prop):
    return {e['signature'] for e in load_known(prop) if e.get('status') == 'open'}


class _Timeout(HarnessError):
    pass


def _alarm(signum, frame):
    raise _Timeout('per-run wall cap exceeded')


_FROZEN = False


def execute_plan(mod, plan, known_open, cap_s=60.0, keep_events=False):
    """Run one plan. Returns a JSON-able outcome dict."""
    ctx = Ctx(mod.PROPERTY, known_open=known_open, record_events=keep_events)
    harness = None
    # the cap is on the CPU time of the run (a machine shared with other jobs stretches wall time, not the work done);
    # wall time is only the backstop for a run that blocks without computing
    old = signal.signal(signal.SIGALRM, _alarm)
    old_prof = signal.signal(signal.SIGPROF, _alarm)
    signal.setitimer(signal.ITIMER_PROF, cap_s)
    signal.setitimer(signal.ITIMER_REAL, cap_s * 10)
    # the cycle collector is a scheduler of its own (it runs whenever allocation counts say so, which depends on everything
    # the process did before): it is switched off for the run and runs only where the plan says so ('gc' steps)
    from . import libstate
    libstate.reset()          # every run starts from the library's just-imported module state
    gc.collect()
    global _FROZEN
    if not _FROZEN and 'rsatoolbox' in sys.modules:
        gc.freeze()          # everything imported so far is permanent: later collections only look at what runs allocate
        _FROZEN = True
    gc.disable()
    try:
        with contextlib.redirect_stdout(io.StringIO()):     # the library prints progress messages
            mod.execute(plan, ctx)
    except StopRun:
        pass
    except HarnessError as e:
        harness = f'{type(e).__name__}: {e}'
    except Exception as e:  # a bug in the check itself: never a VIOLATION
        harness = 'check raised ' + ''.join(traceback.format_exception(type(e), e, e.__traceback__))[-3000:]
    finally:
        signal.setitimer(signal.ITIMER_PROF, 0)
        signal.setitimer(signal.ITIMER_REAL, 0)
        signal.signal(signal.SIGALRM, old)
        signal.signal(signal.SIGPROF, old_prof)
        gc.enable()
    out = {
        'digest': ctx.digest(), 'ticks': ctx.seq, 'violations': ctx.violations,
        'known_hits': dict(ctx.known_hits), 'probes': dict(ctx.probes), 'faults': dict(ctx.faults),
        'behaviours': sorted(ctx.behaviours), 'nontrivial': bool(ctx.nontrivial),
        'harness': harness, 'components': sorted(ctx.components), 'notes': ctx.notes,
    }
    if keep_events:
        out['events'] = ctx.events
    script = getattr(ctx, 'draw_script', None)
    if script is not None:
        out['draw_script'] = script
    return out


def make_plan(mod, verif_seed, tier, index):
    rs = run_seed(verif_seed, mod.PROPERTY, tier, index)
    plan = mod.gen_plan(PlanRng(rs), tier, index)
    plan['run_seed'] = rs
    plan.setdefault('serve_seed', H('serve-seed', rs))
    return json.loads(canon(plan))   # the plan is *exactly* what a replay file would hold


def _run_chunk(prop, tier, verif_seed, indices, cap_s):
    mod = load_check(prop)
    known = known_open_sigs(prop)
    faulthandler.dump_traceback_later(max(cap_s * len(indices) * 10, 600), exit=True)
    res = []
    for i in indices:
        if isinstance(i, tuple):      # directed scenario
            plan = json.loads(canon(mod.directed_plans(tier)[i[1]]))
            plan.setdefault('run_seed', H('directed', prop, i[1]))
            plan.setdefault('serve_seed', H('serve-seed', plan['run_seed']))
            idx = f'directed:{i[1]}'
        else:
            plan = make_plan(mod, verif_seed, tier, i)
            idx = i
        out = execute_plan(mod, plan, known, cap_s=cap_s)
        out['index'] = idx
        if out['violations'] or out['harness'] or (isinstance(i, int) and i < 3) or isinstance(i, tuple) and i[1] < 2:
            out['plan'] = plan
        res.append(out)
    faulthandler.cancel_dump_traceback_later()
    return res


# ------------------------------------------------------------------------------------- shrinking
def _generic_candidates(plan):
    """ddmin-style candidates over plan['ops'] (if present)."""
    ops = plan.get('ops')
    if not isinstance(ops, list) or len(ops) <= 1:
        return
    n = len(ops)
    chunk = n // 2
    while chunk >= 1:
        for start in range(0, n, chunk):
            cand = dict(plan)
            cand['ops'] = ops[:start] + ops[start + chunk:]
            if cand['ops']:
                yield cand
        chunk //= 2


def shrink(mod, plan, signature, known, budget_runs=300, budget_s=90.0, cap_s=60.0):
    t0 = time.time()
    runs = 0
    best = plan
    cand_fn = getattr(mod, 'shrink_candidates', None)
    improved = True
    while improved:
        improved = False
        gens = [_generic_candidates(best)]
        if cand_fn is not None:
            gens.append(cand_fn(best))
        for g in gens:
            for cand in g:
                if runs >= budget_runs or time.time() - t0 > budget_s:
                    return best, runs
                cand = json.loads(canon(cand))
                runs += 1
                out = execute_plan(mod, cand, known, cap_s=cap_s)
                if out['harness'] is None and any(v['signature'] == signature for v in out['violations']):
                    best = cand
                    improved = True
                    break
            if improved:
                break
    return best, runs


def write_replay(mod, plan, meta, known, cap_s=60.0):
    """Freeze the served draws into the plan, re-run, and write the replay file."""
    out = execute_plan(mod, plan, known, cap_s=cap_s, keep_events=True)
    if out.get('draw_script') is not None and not plan.get('draw_script'):
        frozen = dict(plan)
        frozen['draw_script'] = out['draw_script']
        frozen['strict_script'] = True
        frozen = json.loads(canon(frozen))
        out2 = execute_plan(mod, frozen, known, cap_s=cap_s, keep_events=True)
        if out2['harness'] is None and [v['signature'] for v in out2['violations']] == \
                [v['signature'] for v in out['violations']]:
            plan, out = frozen, out2
    if not out['violations']:
        return None, out
    v = out['violations'][0]
    doc = {'schema': 1, 'property': mod.PROPERTY, 'check': v['check'], 'signature': v['signature'],
           'plan': plan, 'served': out.get('events', []), 'violation': v, 'digest': out['digest']}
    doc.update(meta)
    doc['hashseed'] = int(os.environ.get('PYTHONHASHSEED', '0') or 0) if (os.environ.get('PYTHONHASHSEED', '0') or '0').isdigit() else 0
    os.makedirs(os.path.join(VERIF, 'replays'), exist_ok=True)
    path = os.path.join(VERIF, 'replays', f"{mod.PROPERTY}-{plan.get('run_seed', 0)}.json")
    with open(path, 'w') as f:
        json.dump(doc, f, indent=1, sort_keys=True)
    return path, out


def replay_file(path, quiet=False):
    """Replay in this interpreter. Returns (reproduced: bool, message)."""
    with open(path) as f:
        doc = json.load(f)
    mod = load_check(doc['property'])
    out = execute_plan(mod, doc['plan'], known_open=known_open_sigs(doc['property']), cap_s=300.0, keep_events=True)
    if out['harness']:
        return False, 'HARNESS ' + out['harness']
    sigs = [v['signature'] for v in out['violations']]
    same_sig = doc['signature'] in sigs
    same_digest = out['digest'] == doc['digest']
    msg = (f"replay property={doc['property']} signature={doc['signature']} reproduced={same_sig} "
           f"digest_identical={same_digest}")
    if same_sig and not quiet:
        v = [v for v in out['violations'] if v['signature'] == doc['signature']][0]
        msg += '\n  ' + v['message']
    return same_sig and same_digest, msg


# ------------------------------------------------------------------------------------- batches
def run_check(prop, tier, verif_seed, n_runs=None, workers=None, wall_cap=None, quiet=False,
              write_evidence=True, first_index=0):
    t0 = time.time()
    mod = load_check(prop)
    budget = mod.BUDGET[tier]
    n_runs = budget['runs'] if n_runs is None else n_runs
    cap_s = budget.get('cap_s', 30.0)
    wall_cap = budget.get('wall_s', 600.0) if wall_cap is None else wall_cap
    workers = workers or min(16, os.cpu_count() or 1)
    chunk = budget.get('chunk', 16)
    known_ents = load_known(prop)
    known = {e['signature'] for e in known_ents if e.get('status') == 'open'}

    n_directed = len(mod.directed_plans(tier)) if hasattr(mod, 'directed_plans') else 0
    tasks = [[('d', j) for j in range(s, min(s + chunk, n_directed))] for s in range(0, n_directed, chunk)]
    tasks += [list(range(s, min(s + chunk, first_index + n_runs)))
              for s in range(first_index, first_index + n_runs, chunk)]
    outcomes = []
    harness = []
    truncated = False
    ctx_mp = mp.get_context('fork')
    try:
        with ProcessPoolExecutor(max_workers=workers, mp_context=ctx_mp) as ex:
            futs = {}
            it = iter(tasks)
            pending = set()
            # bounded submission so that a wall cap stops the batch early
            def submit_more():
                nonlocal it
                while len(pending) < workers * 2:
                    try:
                        t = next(it)
                    except StopIteration:
                        return
                    f = ex.submit(_run_chunk, prop, tier, verif_seed, t, cap_s)
                    pending.add(f)
            submit_more()
            while pending:
                done, _ = wait(pending, return_when=FIRST_COMPLETED)
                for f in done:
                    pending.discard(f)
                    outcomes.extend(f.result())
                if time.time() - t0 > wall_cap:
                    if not truncated:
                        truncated = True
                        it = iter(())     # stop submitting; let the chunks in flight finish
                else:
                    submit_more()
    except BrokenProcessPool as e:
        harness.append(f'worker died: {e!r}')

    def _key(o):
        i = o['index']
        return (0, int(i.split(':')[1])) if isinstance(i, str) else (1, i)
    outcomes.sort(key=_key)

    # ---- aggregate
    probes, faults, known_hits = Counter(), Counter(), Counter()
    behaviours = set()
    ticks = 0
    nontrivial_runs = 0
    components = set()
    viol = []
    samples = []
    digest_all = []
    notes = {}
    for o in outcomes:
        notes.update(o.get('notes') or {})
        probes.update(o['probes'])
        faults.update(o['faults'])
        known_hits.update(o['known_hits'])
        ticks += o['ticks']
        components.update(o['components'])
        digest_all.append(o['digest'])
        if o['nontrivial']:
            nontrivial_runs += 1
            behaviours.update(o['behaviours'])
        if o['harness']:
            harness.append(f"run {o['index']}: {o['harness']}")
        for v in o['violations']:
            viol.append((o, v))
        if 'plan' in o and len(samples) < 3 and not o['violations']:
            summ = mod.summarize(o['plan']) if hasattr(mod, 'summarize') else o['plan']
            samples.append({'index': o['index'], 'plan': summ, 'ticks': o['ticks'],
                            'behaviours': o['behaviours'][:6]})

    # ---- violations: minimise one per distinct signature (at most 3), replay in fresh interpreter
    reported = []
    seen = set()
    if os.environ.get('VERIF_LIST_SIGS'):       # triage aid: list every violation signature, no minimisation
        cnt = Counter(v['signature'] for _, v in viol)
        for sg, n in sorted(cnt.items()):
            ex = [v['message'] for _, v in viol if v['signature'] == sg][0]
            print(f'SIG {n:5d} {sg}\n      {ex[:300]}')
        viol = []
    for o, v in viol:
        if v['signature'] in seen:
            continue
        seen.add(v['signature'])
        if len(seen) > 3:
            continue
        plan = o.get('plan')
        if plan is None:
            continue
        sb = budget.get('shrink', {})
        small, nshr = shrink(mod, plan, v['signature'], known, budget_runs=sb.get('runs', 300),
                             budget_s=sb.get('s', 90.0), cap_s=cap_s)
        meta = {'verif_seed': verif_seed, 'tier': tier, 'run_index': o['index'],
                'shrink_runs': nshr}
        path, out = write_replay(mod, small, meta, known, cap_s=cap_s)
        if path is None:
            harness.append(f"violation {v['signature']} of run {o['index']} did not reproduce in-process")
            continue
        r = subprocess.run([sys.executable, os.path.join(VERIF, 'sim', 'cli.py'), 'replay', path],
                           capture_output=True, text=True, timeout=600)
        if r.returncode != 1:
            harness.append(f"violation {v['signature']}: fresh-interpreter replay of {path} did not "
                           f"reproduce (rc={r.returncode}): {r.stdout[-500:]} {r.stderr[-500:]}")
            continue
        reported.append((path, out['violations'][0]))

    wall = time.time() - t0
    status = 0
    lines = []
    for e in known_ents:
        if e.get('status') == 'open':
            lines.append(f"KNOWN-FINDING: property={prop} {e['signature']} :: {e['what_fails']} "
                         f"(observed {known_hits.get(e['signature'], 0)}x in this run)")
    for path, v in reported:
        lines.append(f"VIOLATION property={prop} replay={path}")
        lines.append(f"  signature={v['signature']}\n  {v['message']}")
        status = 1
    if harness:
        for h in harness[:10]:
            lines.append('HARNESS ' + h)
        if status == 0:
            status = 2
    if truncated and status == 0:
        lines.append(f'NOTE wall cap {wall_cap}s reached after {len(outcomes)} runs')

    if write_evidence and not os.environ.get("VERIF_NO_EVIDENCE"):
        ev = {
            'property_id': prop, 'tier': tier, 'seed': int(verif_seed), 'level': 'exploration',
            'coverage': {
                'evaluations': len(outcomes),
                'distinct_nontrivial': len(behaviours),
                'rule': mod.RULE,
                'samples': samples or [{'note': 'no clean sample retained'}],
                'nontrivial_runs': nontrivial_runs,
                'directed_scenarios': n_directed,
                'runs_per_hour': int(len(outcomes) / max(wall, 1e-6) * 3600),
                'sim_ticks': ticks,
                'sim_time_note': 'logical clock: one tick per seam event (served draw, scheduler '
                                 'decision, pool operation, file-system call); the library has no '
                                 'wall-clock semantics',
                'faults_fired': dict(sorted(faults.items())),
                'probes': dict(sorted(probes.items())),
                'known_findings_observed': dict(sorted(known_hits.items())),
                'components': {'real': sorted(c[5:] for c in components if c.startswith('real:')),
                               'stub': sorted(c[5:] for c in components if c.startswith('stub:'))},
                'batch_digest': '%016x' % H(digest_all),
                'seeds': {'VERIF_SEED': int(verif_seed), 'run_indices': [first_index, first_index + n_runs],
                          'run_seed_rule': "H('run', VERIF_SEED, property, tier, index)"},
                'notes': notes,
                'workers': workers, 'truncated_by_wall_cap': truncated,
                'harness_problems': harness[:10],
            },
            'assumptions': list(getattr(mod, 'ASSUMPTIONS', [])),
            'wall_s': round(wall, 3),
            'violations': len(reported),
        }
        os.makedirs(os.path.join(VERIF, 'evidence'), exist_ok=True)
        with open(os.path.join(VERIF, 'evidence', prop + '.json'), 'w') as f:
            json.dump(ev, f, indent=1, sort_keys=True)
    if not quiet:
        print(f'{prop} tier={tier} seed={verif_seed} runs={len(outcomes)} nontrivial={nontrivial_runs} '
              f'behaviours={len(behaviours)} ticks={ticks} wall={wall:.1f}s '
              f'batch_digest={"%016x" % H(digest_all)}')
        for ln in lines:
            print(ln)
        sys.stdout.flush()
    return status, {'outcomes': outcomes, 'digests': digest_all, 'lines': lines}
