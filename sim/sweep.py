"""Introspection sweep for C12: enumerate every public callable of rsatoolbox.{rdm,data,model,inference,util} at run
time, synthesise arguments by parameter name from a small stock of objects, call it (exceptions tolerated), and compare the
fingerprint of every argument before and after a call that returned. New functions are picked up automatically;
callables that could not be called successfully are listed in the evidence as not exercised -- never silently skipped."""
from __future__ import annotations
import importlib
import inspect
import os
import pkgutil
import signal
import tempfile

import numpy as np

from .fp import fp_any, diff_fields
from . import gen

PACKAGES = ['rsatoolbox.rdm', 'rsatoolbox.data', 'rsatoolbox.model', 'rsatoolbox.inference', 'rsatoolbox.util']
# documented in-place operations: their *target* (self) is expected to change
INPLACE_SELF = {'RDMs.reorder', 'RDMs.sort_by', 'RDMs.append', 'Dataset.sort_by', 'TemporalDataset.sort_by', 'DatasetBase.sort_by'}
SKIP = {'Result.save', 'RDMs.save', 'DatasetBase.save', 'Dataset.save', 'TemporalDataset.save'}      # covered by C16 (file seam)
PACKAGES_ = None
HEAVY_DEFAULTS = {'N': 3, 'n_cv': 1, 'n_sim': 1, 'verbose': False, 'n_jobs': 1, 'use_correction': False, 'k': 2}
# optional parameters whose default None does not work for the stock objects
OVERRIDE_IF_NONE = {'pattern_descriptor': 'index', 'rdm_descriptor': 'index', 'descriptor': 'cond', 'cv_descriptor': 'run'}
OPTIONAL_VARIANTS = {'method': ['corr', 'corr_cov', 'cosine_cov', 'spearman', 'correlation', 'crossnobis', 'poisson_cv', 'mahalanobis'],
                     'normalize': [False], 'random': [True], 'boot_type': ['rdm', 'pattern'], 'remove_mean': [True],
                     'weighting': ['equal']}


class F:
    """an optional-argument value built freshly per call"""
    def __init__(self, fn):
        self.fn = fn


def _prec3(salt):
    from .ops_data import _prec
    return _prec(3, salt)


# combinations of optional parameters (applied on the first-choice required arguments of every callable that has all of them)
OPTIONAL_COMBOS = [
    {'method': 'mahalanobis', 'noise': F(lambda: _prec3(1))},
    {'method': 'crossnobis', 'noise': F(lambda: _prec3(2))},
    {'method': 'crossnobis', 'noise': F(lambda: [_prec3(3), _prec3(4)])},                 # one precision per fold (2 runs)
    {'method': 'crossnobis', 'noise': F(lambda: np.array([_prec3(5), _prec3(6)]))},
    {'method': 'crossnobis', 'noise': F(lambda: {0: _prec3(7), 1: _prec3(8)})},
    {'method': 'poisson', 'prior_lambda': 2.0, 'prior_weight': 0.5},
    {'method': 'poisson_cv', 'prior_lambda': 2.0, 'prior_weight': 0.5},
    {'dof': 3}, {'enforce_same': True}, {'unbalanced': True}, {'threshold': 1e-3}, {'ridge_weight': 0.5},
    {'bins': F(lambda: [np.array([-0.5, 0.75]), np.array([0.0, 1.25])])},
    {'sigma_k': F(lambda: np.eye(5))},
    {'pattern_idx': F(lambda: np.array([0, 2, 3])), 'pattern_descriptor': 'index'},
    {'pattern_idx': F(lambda: np.array([0, 2, 3])), 'pattern_descriptor': 'index', 'normalize': False},
    {'pattern_idx': F(lambda: np.array([0, 2, 2, 3])), 'pattern_descriptor': 'index', 'ridge_weight': 0.5},
    {'pattern_idx': F(lambda: np.array([10, 30, 30])), 'pattern_descriptor': 'grp', 'method': 'corr'},
    {'theta': F(lambda: np.array([0.5, 1.5, 1.0]))},
    {'theta': F(lambda: np.array([-0.5, 1.5, -1.0]))},          # parameters outside the range a fit would return
    {'theta': F(lambda: np.array([0, 2, 1]))},
    {'fitter': F(lambda: __import__('rsatoolbox').model.fitter.fit_optimize)},
    {'weights': F(lambda: np.array([1.0, 2.0, 0.5, 1.5]))},
    {'model_var': F(lambda: np.array([0.02, 0.03, 0.01])), 'diff_var': F(lambda: np.array([0.04, 0.02, 0.03])),
     'noise_ceil_var': F(lambda: np.array([[0.02, 0.02], [0.03, 0.03], [0.01, 0.01]])), 'dof': 5},
    {'model_var': F(lambda: np.array([0.02, 0.03, 0.01])), 'dof': 5}, {'diff_var': F(lambda: np.array([0.04, 0.02, 0.03])), 'dof': 5},
    # variance estimates that came out zero or negative (the extrapolating corrections of the dual bootstrap produce them)
    {'model_var': F(lambda: np.array([0.02, 0.0, -0.01])), 'diff_var': F(lambda: np.array([0.04, -0.02, 0.0])),
     'noise_ceil_var': F(lambda: np.array([[0.02, 0.0], [0.0, 0.03], [-0.01, 0.01]])), 'dof': 5},
    {'variances': F(lambda: np.array([0.04, 0.0, -0.03]))},
    {'noise_ceil_var': F(lambda: np.array([[0.02, 0.02], [0.03, 0.03], [0.01, 0.01]])), 'dof': 5},
    {'reindex': False}, {'positive': True}, {'calc_noise_ceil': False}, {'k_rdm': 2, 'k_pattern': 2},
    # the sizes of the bootstrapped factors (finite-sample corrections of the variances), with 1-D, 2-D and dual-bootstrap
    # (3-D) covariances
    {'n_rdm': 4, 'n_pattern': 5}, {'n_rdm': 4}, {'n_pattern': 5},
    {'variance': F(lambda: np.array([np.eye(5) * (0.01 + 0.01 * t) + 0.001 for t in range(3)])), 'n_rdm': 4, 'n_pattern': 5},
    {'variance': F(lambda: np.array([np.eye(5) * (0.01 + 0.01 * t) + 0.001 for t in range(3)])), 'n_rdm': 4, 'n_pattern': 5, 'nc_included': False},
    {'variances': F(lambda: np.array([np.eye(5) * (0.01 + 0.01 * t) + 0.001 for t in range(3)])), 'n_rdm': 4, 'n_pattern': 5},
]
SCOPE = tuple(p + '.' for p in ['rsatoolbox.rdm', 'rsatoolbox.data', 'rsatoolbox.model', 'rsatoolbox.inference', 'rsatoolbox.util'])


def discover():
    """sorted list of (qualified name, callable, owner class or None)"""
    found = {}
    for pk in PACKAGES:
        pkg = importlib.import_module(pk)
        mods = [pkg]
        for m in pkgutil.iter_modules(pkg.__path__):
            if m.name.startswith('_'):
                continue
            try:
                mods.append(importlib.import_module(pk + '.' + m.name))
            except Exception:
                continue
        for mod in mods:
            for name, obj in sorted(vars(mod).items()):
                if name.startswith('_'):
                    continue
                if inspect.isfunction(obj) and getattr(obj, '__module__', '').startswith(SCOPE):
                    found.setdefault(obj.__module__ + '.' + obj.__qualname__, (obj, None))
                elif inspect.isclass(obj) and getattr(obj, '__module__', '').startswith(SCOPE):
                    for mname, meth in sorted(vars(obj).items()):
                        if mname.startswith('_') or not inspect.isfunction(meth):
                            continue
                        found.setdefault(obj.__module__ + '.' + obj.__name__ + '.' + mname, (meth, obj))
    return [(k, v[0], v[1]) for k, v in sorted(found.items())]


class Stock:
    """fresh argument objects for every call"""

    def __init__(self, variant=0):
        self.variant = variant
        self.tmp = tempfile.mkdtemp(prefix='verif-sweep-')
        self.nfile = 0
        self.spec = {'rdm_uids': [4, 9, 2, 7], 'cond_uids': [7, 3, 12, 5, 9], 'measure': 'euclidean',
                     'descriptors': {'session': 's1'},
                     'rdm_desc': {'grp': {'values': ['b', 'a', 'b', 'a'], 'container': 'list'},
                                  'weight': {'values': [1.0, 2.0, 1.0, 0.5], 'container': 'array'}},
                     'pat_desc': {'grp': {'values': [30, 10, 20, 10, 40], 'container': 'array'},
                                  'conds': {'values': ['c7', 'c3', 'c12', 'c5', 'c9'], 'container': 'list'}},
                     'nan_cells': []}

    def rdms(self, salt='v'):
        r = gen.build_rdms(self.spec, value_fn=gen.make_value_fn(salt))
        if self.variant % 2:
            r.dissimilarities[0, 1] = -0.75        # a negative entry
        if (self.variant // 2) % 2:
            r.dissimilarities[1, 2] = np.nan       # a missing entry
        return r

    def dataset(self, temporal=False):
        from .ops_data import build_dataset
        n_obs = 8
        spec = {'temporal': temporal, 'ou': [5, 8, 2, 9, 4, 7, 11, 3], 'cu': [3, 9, 1], 'tu': [2, 7, 4, 9] if temporal else [],
                'obs_desc': {'cond': {'values': [2, 0, 1, 1, 2, 0, 3, 3], 'container': 'list'},
                             'run': {'values': [1, 0, 0, 1, 0, 1, 0, 1], 'container': 'array'}},
                'ch_desc': {'roi': {'values': [1, 2, 1], 'container': 'list'}, 'name': {'values': ['ch3', 'ch9', 'ch1'], 'container': 'list'}},
                'time_desc': {}, 'descriptors': {'subj': 's1', 'sess': 1}}
        d = build_dataset(spec)
        d.measurements = np.abs(d.measurements) % 17 + 0.5
        return d

    def model(self, kind=0):
        from rsatoolbox.model import ModelFixed, ModelWeighted, ModelSelect, ModelInterpolate
        cls = [ModelWeighted, ModelFixed, ModelSelect, ModelInterpolate][kind % 4]
        return cls('m%d' % kind, gen.build_model_rdms(self.spec, 1 if cls is ModelFixed else 3, salt='m%d' % kind))

    def path(self, ext='h5'):
        self.nfile += 1
        return os.path.join(self.tmp, f's{self.nfile}.{ext}')

    def result(self):
        from rsatoolbox.inference import eval_fixed
        return eval_fixed([self.model(1), self.model(0)], self.rdms(), theta=[None, np.ones(3)], method='cosine')

    def candidates(self, pname, fname):
        """list of zero-argument factories for a parameter name (most plausible first)"""
        n_pairs = 10
        table = {
            'rdms': [self.rdms, lambda: [self.rdms(), self.rdms('w')]], 'rdm': [self.rdms, lambda: np.arange(1.0, 11.0)],
            'rdm1': [self.rdms], 'rdm2': [lambda: self.rdms('w')], 'rdms_list': [lambda: [self.rdms(), self.rdms('w')]],
            'list_of_rdms': [lambda: [self.rdms(), self.rdms('w')]],
            'data': [self.rdms, self.dataset, lambda: self.dataset(True)], 'dataset': [self.dataset, lambda: self.dataset(True), lambda: [self.dataset(), self.dataset()]],
            'datasets': [lambda: [self.dataset(), self.dataset()]], 'sets': [lambda: [self.dataset(), self.dataset()]],
            'dataset_list': [lambda: [self.dataset(), self.dataset()]], 'ds': [self.dataset],
            'model': [lambda: self.model(0), lambda: self.model(1), lambda: self.model(2), lambda: self.model(3)],
            'models': [lambda: [self.model(1), self.model(0)], lambda: self.model(1)],
            'theta': [lambda: None, lambda: np.ones(3)], 'method': [lambda: 'cosine', lambda: 'euclidean', lambda: 'corr'],
            'descriptor': [lambda: 'cond', lambda: 'grp', lambda: 'conds'], 'by': [lambda: 'grp', lambda: 'cond', lambda: 'roi', lambda: 'time'],
            'value': [lambda: 'b', lambda: [10, 30], lambda: 1, lambda: 2], 'obs_desc': [lambda: 'cond'], 'cv_descriptor': [lambda: 'run', lambda: None],
            'pattern_descriptor': [lambda: 'grp', lambda: 'index'], 'rdm_descriptor': [lambda: 'grp', lambda: 'index'],
            'pattern_idx': [lambda: np.array([10, 30, 30]), lambda: None], 'idx': [lambda: 1, lambda: [0, 2]],
            'new_order': [lambda: np.array([4, 2, 0, 1, 3])], 'evaluations': [lambda: np.arange(24.0).reshape(4, 3, 2) / 24],
            'variances': [lambda: np.eye(5) * 0.01 + 0.001], 'noise_ceil': [lambda: np.array([0.6, 0.9])],
            'noise_ceiling': [lambda: np.array([0.6, 0.9])], 'dof': [lambda: 3], 'diff_var': [lambda: np.full(3, 0.01)],
            'model_var': [lambda: np.full(3, 0.01)], 'noise_ceil_var': [lambda: np.full((3, 2), 0.01)],
            'filename': [lambda: self.path('h5')], 'file': [lambda: self.path('h5')], 'fhandle': [lambda: self.path('h5')],
            'file_type': [lambda: 'hdf5'], 'dictionary': [lambda: {'a': np.arange(3.0), 'b': 'x', 'c': {'d': [1, 2]}}],
            'name': [lambda: 'a_name'], 'x': [lambda: np.arange(20.0).reshape(2, 10), lambda: np.arange(10.0)], 'vector': [lambda: np.arange(10.0)],
            'vector1': [lambda: np.arange(1.0, 21.0).reshape(2, 10)], 'vector2': [lambda: np.arange(2.0, 22.0).reshape(2, 10) ** 0.5],
            'vectors': [lambda: np.arange(1.0, 21.0).reshape(2, 10)], 'rdm_vector': [lambda: np.arange(1.0, 21.0).reshape(2, 10)],
            'n': [lambda: 10, lambda: 5], 'n_cond': [lambda: 5], 'n_rdm': [lambda: 4], 'n_part': [lambda: 2], 'n_pattern': [lambda: 5], 'k': [lambda: 2],
            'array': [lambda: np.array([3, 1, 3, 2, 1])], 'index_vector': [lambda: np.array([0, 1, 0, 2, 1])], 'c_vec': [lambda: np.array([0, 1, 0, 2, 1])],
            'descriptors': [lambda: {'a': [1, 2, 3], 'index': [0, 1, 2]}], 'desc_new': [lambda: {'a': [4], 'index': [0]}],
            'indices': [lambda: [0, 2]], 'dictionary_': [], 'd_dict': [lambda: {'a': np.array([1, 2]), 'b': {'0': 'x', '1': 'y'}}],
            'a': [lambda: {'a': [1, 2]}, lambda: np.arange(4.0)], 'b': [lambda: {'a': [1, 2]}, lambda: np.arange(4.0)],
            'n_element': [lambda: 3], 'matrix': [lambda: np.eye(3)], 'X': [lambda: np.arange(9.0).reshape(3, 3) + np.eye(3)],
            'G': [lambda: np.eye(4)], 'n_channel': [lambda: 6], 'sigma_k': [lambda: None], 'residuals': [lambda: np.random.RandomState(0).randn(12, 3), lambda: np.asfortranarray(np.random.RandomState(2).randn(12, 3)),
                          lambda: np.random.RandomState(3).randn(3, 12).T, lambda: np.random.RandomState(4).randn(12, 1),
                          lambda: [np.random.RandomState(5).randn(12, 3), np.asfortranarray(np.random.RandomState(6).randn(10, 3))]],
            'measurements': [lambda: np.random.RandomState(1).randn(8, 3), lambda: np.asfortranarray(np.random.RandomState(7).randn(8, 3))], 'fitter': [lambda: None], 'fit_fun': [lambda: None],
            'train_set': [], 'test_set': [], 'ceil_set': [],
            'mask': [lambda: np.ones((3, 3, 2))], 'center': [lambda: (1, 1, 0)], 'centers': [lambda: np.array([0, 1, 2])],
            'neighbors': [lambda: [np.array([0, 1]), np.array([1, 2]), np.array([0, 2])]], 'events': [lambda: np.array([0, 1, 2, 0, 1, 2])],
            'data_2d': [lambda: np.arange(18.0).reshape(6, 3) ** 1.3], 'sl_RDM': [self.rdms], 'eval_function': [],
            'category_vector': [lambda: [0, 1, 0, 1, 2]], 'category_selector': [lambda: 'grp'], 'fun': [lambda: (lambda v: v * 2.0)],
            'low': [lambda: 0.2], 'up': [lambda: 0.8], 'weights': [lambda: None, lambda: 'weight'], 'p': [lambda: np.array([4, 2, 0, 1, 3])],
            'target_pdesc': [lambda: None], 'all_patterns': [lambda: None], 'cond_vec': [lambda: np.array([0., 1, 2, 3, 4, 0, 1, 2, 3, 4])],
            'time_descriptor': [lambda: 'time'], 'bins': [lambda: [np.array([-0.5, 0.75]), np.array([0.0, 1.25])]],
            't_from': [lambda: -0.5], 't_to': [lambda: 0.8], 'l1_obs_desc': [lambda: 'run'], 'l2_obs_desc': [lambda: 'cond'], 'obs_desc_': [],
            'df': [lambda: self.dataset().to_df(channel_descriptor='name')], 'result': [self.result], 'results': [self.result],
            'rdm_dict': [lambda: self.rdms().copy().to_dict()], 'model_dict': [lambda: self.model(0).to_dict()], 'data_dict': [lambda: self.dataset().copy().to_dict()],
            'result_dict': [lambda: self.result().to_dict()], 'sample1': [lambda: [1, 2, 2, 3]], 'sample2': [lambda: [2, 3]],
            'test_type': [lambda: 't-test'], 'value_': [],
        }
        if pname in ('filename', 'file', 'fhandle') and (fname.startswith('load_') or fname.startswith('read_dict')):
            kind = 'result' if 'result' in fname else ('dataset' if 'dataset' in fname else 'rdms')
            ext = 'pkl' if 'pkl' in fname else 'h5'

            def saved():
                pth = self.path(ext)
                obj = {'rdms': self.rdms, 'dataset': self.dataset, 'result': self.result}[kind]()
                obj.save(pth, file_type='pkl' if ext == 'pkl' else 'hdf5')
                return pth
            return [saved]
        if pname == 'rdms' and fname == 'inverse_permute_rdms':
            from rsatoolbox.rdm.rdms import permute_rdms
            return [lambda: permute_rdms(self.rdms(), p=np.array([4, 2, 0, 1, 3]))]
        if pname in ('train_set', 'test_set', 'ceil_set'):
            from rsatoolbox.inference import sets_k_fold
            i = {'train_set': 0, 'test_set': 1, 'ceil_set': 2}[pname]
            return [lambda: sets_k_fold(self.rdms(), k_rdm=2, k_pattern=1, random=False)[i]]
        if pname == 'eval_function':
            from rsatoolbox.inference import eval_fixed
            return [lambda: eval_fixed]
        if pname == 'descriptor' and fname in ('num_index', 'bool_index'):
            return [lambda: ['a', 'b', 'a']]
        if pname == 'descriptor' and fname in ('check_descriptor_length', 'subset_descriptor', 'append_descriptor',
                                                'check_descriptor_length_error'):
            return [lambda: {'a': [1, 2, 3], 'b': np.array(['x', 'y', 'z']), 'index': [0, 1, 2]}]
        if pname == 'dictionary' and fname == 'extract_dict':
            return [lambda: {'a': np.arange(5.0), 'b': list('vwxyz')}]
        if fname in ('t_tests', 't_test_0', 't_test_nc', 'all_tests', 'pair_tests', 'zero_tests', 'nc_tests'):
            # a bootstrap result of 3 models over 6 samples
            special = {'evaluations': [lambda: (np.arange(18.0).reshape(6, 3) % 7) / 10 + 0.1],
                       'variances': [lambda: np.array([[0.02, 0.001, 0.0], [0.001, 0.03, 0.002], [0.0, 0.002, 0.01]])],
                       'noise_ceil': [lambda: np.array([0.6, 0.9])], 'model_var': [lambda: np.array([0.02, 0.03, 0.01])],
                       'diff_var': [lambda: np.array([0.04, 0.02, 0.03])],
                       'noise_ceil_var': [lambda: np.array([[0.02, 0.02], [0.03, 0.03], [0.01, 0.01]])], 'dof': [lambda: 5]}
            if fname == 't_test_0' or fname == 't_test_nc':
                special['variances'] = [lambda: np.array([0.02, 0.03, 0.01])]
            if fname == 't_test_nc':
                special['noise_ceil'] = [lambda: 0.9]
            if fname == 't_tests':
                special['variances'] = [lambda: np.array([0.04, 0.02, 0.03]), lambda: np.array([0.04, 0.0, -0.03])]
            if pname in special:
                return special[pname]
        if pname == 'desc_new' and fname == 'append_descriptor':
            return [lambda: {'a': [4], 'b': np.array(['w']), 'index': [0]}]
        extra = {'category_idxs': [lambda: [1, 2, 4]], 'category_1_idxs': [lambda: [0, 1]], 'category_2_idxs': [lambda: [2, 4]],
                 'ci_percent': [lambda: 0.9], 'variance': [lambda: np.eye(5) * 0.01 + 0.001, lambda: np.array([np.eye(5) * (0.01 + 0.01 * t) + 0.001 for t in range(3)]),
                              lambda: np.full(5, 0.02)], 'size': [lambda: 4],
                 'dissimilarities': [lambda: np.arange(1.0, 11.0)], 'family_index': [lambda: 1]}
        if pname in extra:
            return extra[pname]
        c = table.get(pname)
        if c is None and pname.rstrip('s') in table:
            c = table[pname.rstrip('s')]
        return c


def _in_scope(v):
    """the statement quantifies over arguments that are RDMs, datasets, models or arrays (or lists of these)"""
    from rsatoolbox.rdm import RDMs
    from rsatoolbox.data.base import DatasetBase
    from rsatoolbox.model import Model
    if isinstance(v, (RDMs, DatasetBase, Model, np.ndarray)):
        return True
    if isinstance(v, (list, tuple)) and v and all(_in_scope(x) or isinstance(x, (list, tuple)) for x in v):
        return True
    if isinstance(v, dict) and v and all(isinstance(x, np.ndarray) for x in v.values()):
        return True
    return hasattr(v, 'evaluations') and hasattr(v, 'models')


class _Slow(Exception):
    pass


def _alarm(sig, frm):
    raise _Slow()


def sweep(ctx, variant=0, report=None, only=None):
    """returns dict with per-callable status; violations are reported through `report(signature, message)`"""
    stock = Stock(variant)
    status = {}
    old = signal.signal(signal.SIGALRM, _alarm)
    try:
        for qname, fn, owner in discover():
            short = (owner.__name__ + '.' if owner else '') + fn.__name__
            if only and short not in only and qname not in only:
                continue
            if short in SKIP:
                status[qname] = 'skipped: covered by C16 (writes files through the file seam)'
                continue
            try:
                sig = inspect.signature(fn)
            except (TypeError, ValueError):
                status[qname] = 'not exercised: no signature'
                continue
            params = [p for p in sig.parameters.values() if p.kind in (p.POSITIONAL_ONLY, p.POSITIONAL_OR_KEYWORD, p.KEYWORD_ONLY)]
            if owner is not None:
                params = params[1:]
            needed = [p for p in params if p.default is inspect._empty]
            optional_heavy = [p for p in params if p.default is not inspect._empty and p.name in HEAVY_DEFAULTS]
            optional_none = [p for p in params if p.default is None and p.name in OVERRIDE_IF_NONE]
            varargs = [p for p in sig.parameters.values() if p.kind == p.VAR_POSITIONAL]
            cand = {}
            unknown = []
            for p in needed:
                c = stock.candidates(p.name, short)
                if not c:
                    unknown.append(p.name)
                cand[p.name] = c or []
            if unknown:
                status[qname] = 'not exercised: no argument recipe for parameter(s) ' + ','.join(unknown)
                continue
            selfs = [None]
            if owner is not None:
                selfs = _self_factories(stock, owner)
                if not selfs:
                    status[qname] = 'not exercised: no instance recipe for ' + owner.__name__
                    continue
            # attempts: first choice for everything, then vary one parameter at a time, for each self recipe
            attempts = []
            for sf in selfs:
                base = {k: 0 for k in cand}
                attempts.append((sf, dict(base)))
                for k, lst in cand.items():
                    for i in range(1, len(lst)):
                        a = dict(base)
                        a[k] = i
                        attempts.append((sf, a))
            # ... and, on the first-choice arguments, every listed value of enumerated optional parameters
            extra_opts = [(p.name, v) for p in params if p.default is not inspect._empty
                          for v in OPTIONAL_VARIANTS.get(p.name, [])]
            pnames = {p.name for p in params if p.default is not inspect._empty}
            combos = [c for c in OPTIONAL_COMBOS if set(c) <= pnames | {p.name for p in needed} and set(c) & pnames]
            attempts = ([(sf, ch, None) for sf, ch in attempts[:14]] + [(selfs[0], {k: 0 for k in cand}, ov) for ov in extra_opts]
                        + [(selfs[0], {k: 0 for k in cand}, c) for c in combos])
            ok = False
            last_err = None
            for sf, choice, optval in attempts:
                try:
                    kwargs = {k: cand[k][i]() for k, i in choice.items()}
                    if isinstance(optval, dict):
                        for k_, v_ in optval.items():
                            kwargs[k_] = v_.fn() if isinstance(v_, F) else v_
                        if 'pattern_idx' in optval and hasattr(kwargs.get('data'), 'subsample_pattern'):
                            # fitting on a resample: the data are the resampled data, the model is resampled by the fitter
                            kwargs['data'] = kwargs['data'].subsample_pattern(kwargs['pattern_descriptor'], kwargs['pattern_idx'])
                    elif optval is not None:
                        kwargs[optval[0]] = optval[1]
                    for p in optional_heavy:
                        kwargs[p.name] = HEAVY_DEFAULTS[p.name]
                    for p in optional_none:
                        kwargs[p.name] = OVERRIDE_IF_NONE[p.name]
                    star = []
                    if varargs and varargs[0].name == 'rdms':
                        star = [stock.rdms(), stock.rdms('w')]
                    inst = sf() if sf is not None else None
                except Exception as e:
                    last_err = f'argument construction: {e!r}'
                    continue
                watch = {k: v for k, v in kwargs.items() if _in_scope(v)}
                for i_, v_ in enumerate(star):
                    watch[f'*args[{i_}]'] = v_
                if inst is not None:
                    watch['self'] = inst
                before = {k: fp_any(v) for k, v in watch.items()}
                ctx.tick('sweep', fn=qname, choice=sorted(choice.items()))
                signal.setitimer(signal.ITIMER_REAL, 6.0)
                try:
                    if inst is not None:
                        fn(inst, *star, **kwargs)
                    else:
                        fn(*star, **kwargs)
                except _Slow:
                    last_err = 'timeout (> 6 s)'
                    continue
                except Exception as e:
                    last_err = f'{type(e).__name__}: {str(e)[:80]}'
                    continue
                finally:
                    signal.setitimer(signal.ITIMER_REAL, 0)
                ok = True
                ctx.nontrivial = True
                for k, v in watch.items():
                    if k == 'self' and short in INPLACE_SELF:
                        continue
                    after = fp_any(v)
                    if after != before[k]:
                        fields = sorted({f.split('.')[-1] for f in diff_fields(before[k], after)})
                        if fields == ['repr']:
                            continue
                        report(f'sweep:{short}:{k}:{"+".join(fields)}',
                               f'{qname}({", ".join(sorted(kwargs))}) returned normally but changed its argument {k!r} in {diff_fields(before[k], after)}')
                ctx.probe('sweep_calls_checked')
            status[qname] = 'exercised' if ok else f'not exercised: every attempt raised ({last_err})'
    finally:
        signal.signal(signal.SIGALRM, old)
        import shutil
        shutil.rmtree(stock.tmp, ignore_errors=True)
    return status


def _self_factories(stock, owner):
    name = owner.__name__
    if name == 'RDMs':
        return [stock.rdms]
    if name in ('Dataset', 'DatasetBase'):
        return [stock.dataset]
    if name == 'TemporalDataset':
        return [lambda: stock.dataset(True)]
    if name == 'Model':
        return [lambda: stock.model(0)]
    if name in ('ModelFixed', 'ModelWeighted', 'ModelSelect', 'ModelInterpolate'):
        k = {'ModelWeighted': 0, 'ModelFixed': 1, 'ModelSelect': 2, 'ModelInterpolate': 3}[name]
        return [lambda: stock.model(k)]
    if name == 'Result':
        return [stock.result]
    if name == 'ModelFamily':
        from rsatoolbox.model.model_family import ModelFamily
        return [lambda: ModelFamily([stock.model(1), stock.model(1)])]
    if name == 'Fitter':
        from rsatoolbox.model.fitter import Fitter, fit_regress
        return [lambda: Fitter(fit_regress, ridge_weight=0.1)]
    return []
