#!/venv/bin/python
"""Sensitivity self-test: a catalogue of small realistic planted mutants (DESIGN section 4 lists them per property).
Each mutant is a textual replacement applied to a scratch copy of /repo/src (outside /repo and /verif); the quick check of
its property must report a VIOLATION (exit 1) within a reduced budget. Usage: sensitivity.py [Cxx ...] [--runs N]
Exit 0 if every selected mutant is caught, 1 otherwise."""
import os
import shutil
import subprocess
import sys
import tempfile

VERIF = os.path.dirname(os.path.dirname(os.path.abspath(__file__)))

M = []


def mut(prop, name, path, old, new, runs=None):
    M.append({'prop': prop, 'name': name, 'path': path, 'old': old, 'new': new, 'runs': runs})


B = 'rsatoolbox/inference/bootstrap.py'
R = 'rsatoolbox/rdm/rdms.py'
E = 'rsatoolbox/inference/evaluate.py'
CV = 'rsatoolbox/inference/crossvalsets.py'
S = 'rsatoolbox/simulation/sim.py'
SL = 'rsatoolbox/util/searchlight.py'
D = 'rsatoolbox/data/dataset.py'
H5 = 'rsatoolbox/io/hdf5.py'

# ---- C09
mut('C09', 'high=len-1', B, "rdm_sample = np.random.randint(0, len(rdm_select),", "rdm_sample = np.random.randint(0, len(rdm_select) - 1,")
mut('C09', 'subset-for-subsample', B, "    rdms = rdms.subsample(rdm_descriptor, rdm_idx)\n    return rdms, rdm_idx", "    rdms = rdms.subset(rdm_descriptor, rdm_idx)\n    return rdms, rdm_idx")
mut('C09', 'diagonal-not-nan', R, "            np.fill_diagonal(dissimilarities[i_rdm], np.nan)", "            pass")
mut('C09', 'descriptor-wrong-index', R, "        pattern_descriptors = extract_dict(\n            self.pattern_descriptors, selection)\n        rdm_descriptors = deepcopy(self.rdm_descriptors)\n        dissimilarity_measure = self.dissimilarity_measure\n        rdms = RDMs(dissimilarities=dissimilarities,\n                    descriptors=descriptors,\n                    rdm_descriptors=rdm_descriptors,\n                    pattern_descriptors=pattern_descriptors,\n                    dissimilarity_measure=dissimilarity_measure)\n        return rdms\n\n    def subset(",
    "        pattern_descriptors = extract_dict(\n            self.pattern_descriptors, selection[::-1])\n        rdm_descriptors = deepcopy(self.rdm_descriptors)\n        dissimilarity_measure = self.dissimilarity_measure\n        rdms = RDMs(dissimilarities=dissimilarities,\n                    descriptors=descriptors,\n                    rdm_descriptors=rdm_descriptors,\n                    pattern_descriptors=pattern_descriptors,\n                    dissimilarity_measure=dissimilarity_measure)\n        return rdms\n\n    def subset(")
# ---- C05
mut('C05', 'remainder-from-front', CV, "            test_idx = np.concatenate((test_idx, [len(pattern_select)-(i_group+1)]))", "            test_idx = np.concatenate((test_idx, [i_group]))")
mut('C05', 'train-not-setdiff', CV, "            train_idx = np.setdiff1d(np.arange(len(pattern_select)),\n                                     test_idx)", "            train_idx = np.arange(len(pattern_select))")
mut('C05', 'ceil-from-test-rdms', CV, "        ceil_new = deepcopy(test_new)\n        for i_pattern in range(k_pattern):\n            test_new[i_pattern][0] = rdms_test.subset_pattern(",
    "        for i_pattern in range(k_pattern):\n            test_new[i_pattern][0] = rdms_test.subset_pattern(")
mut('C05', 'fit-on-full-data', E, "                theta = fitter[j](model, train[0], method=method,", "                theta = fitter[j](model, rdms, method=method,")
mut('C05', 'test-idx-to-fitter', E, "                                  pattern_idx=train[1],", "                                  pattern_idx=test[1],")
mut('C05', 'sets_random-overlap', CV, "            train_idx = np.arange(n_pattern, len(pattern_select))", "            train_idx = np.arange(max(n_pattern - 1, 0), len(pattern_select))")
# ---- C04
mut('C04', 'pred-unique-idx', E, "                rdm_pred = rdm_pred.subsample_pattern(pattern_descriptor,\n                                                      pattern_idx)\n                evaluations[i, j] = np.mean(compare(rdm_pred, sample,\n                                                    method))\n            if boot_noise_ceil:\n                noise_min_sample, noise_max_sample = boot_noise_ceiling(\n                    sample, method=method, rdm_descriptor=rdm_descriptor)\n                noise_min.append(noise_min_sample)\n                noise_max.append(noise_max_sample)\n        else:\n            evaluations[i, :] = np.nan\n            noise_min.append(np.nan)\n            noise_max.append(np.nan)\n    if boot_noise_ceil:\n        eval_ok = np.isfinite(evaluations[:, 0])\n        noise_ceil = np.array([noise_min, noise_max])\n        variances = np.cov(np.concatenate([evaluations[eval_ok, :].T,\n                                           noise_ceil[:, eval_ok]]))\n    else:\n        eval_ok = np.isfinite(evaluations[:, 0])\n        noise_ceil = np.array(boot_noise_ceiling(\n            data, method=method, rdm_descriptor=rdm_descriptor))\n        variances = np.cov(evaluations[eval_ok, :].T)\n    dof = min(",
    "                rdm_pred = rdm_pred.subsample_pattern(pattern_descriptor,\n                                                      pattern_idx)\n                evaluations[i, j] = np.mean(compare(rdm_pred, sample,\n                                                    method))\n            if boot_noise_ceil:\n                noise_min_sample, noise_max_sample = boot_noise_ceiling(\n                    data, method=method, rdm_descriptor=rdm_descriptor)\n                noise_min.append(noise_min_sample)\n                noise_max.append(noise_max_sample)\n        else:\n            evaluations[i, :] = np.nan\n            noise_min.append(np.nan)\n            noise_max.append(np.nan)\n    if boot_noise_ceil:\n        eval_ok = np.isfinite(evaluations[:, 0])\n        noise_ceil = np.array([noise_min, noise_max])\n        variances = np.cov(np.concatenate([evaluations[eval_ok, :].T,\n                                           noise_ceil[:, eval_ok]]))\n    else:\n        eval_ok = np.isfinite(evaluations[:, 0])\n        noise_ceil = np.array(boot_noise_ceiling(\n            data, method=method, rdm_descriptor=rdm_descriptor))\n        variances = np.cov(evaluations[eval_ok, :].T)\n    dof = min(")
mut('C04', 'dof-off-by-one', E, "    dof = _n_groups(data.rdm_descriptors, rdm_descriptor) - 1\n    variances = np.cov(evaluations.T)", "    dof = _n_groups(data.rdm_descriptors, rdm_descriptor)\n    variances = np.cov(evaluations.T)")
# (swapping the arguments of _concat_sampling is an equivalent mutant: same multiset, and subsample_pattern sorts)
mut('C04', 'nan-rows-in-cov', E, "        evals_nonan = np.mean(np.mean(evaluations[eval_ok], -1), -1)\n        noise_ceil_nonan = np.mean(noise_ceil[:, eval_ok], -1)\n        variances = np.cov(np.concatenate([evals_nonan.T, noise_ceil_nonan]))\n    result = Result(models, evaluations, method=method,\n                    cv_method=cv_method, noise_ceiling=noise_ceil,\n                    variances=variances, dof=dof, n_rdm=n_rdm,",
    "        evals_nonan = np.nan_to_num(np.mean(np.mean(evaluations, -1), -1))\n        noise_ceil_nonan = np.nan_to_num(np.mean(noise_ceil, -1))\n        variances = np.cov(np.concatenate([evals_nonan.T, noise_ceil_nonan]))\n    result = Result(models, evaluations, method=method,\n                    cv_method=cv_method, noise_ceiling=noise_ceil,\n                    variances=variances, dof=dof, n_rdm=n_rdm,")
mut('C04', 'fixed-variance-ddof', E, "        variances = np.cov(evaluations[0], ddof=0) \\\n            / evaluations.shape[-1]", "        variances = np.cov(evaluations[0], ddof=1) \\\n            / evaluations.shape[-1]")
mut('C04', 'unseeded-entropy', B, "    rdm_idx = np.random.randint(0, len(rdm_select),\n                                size=len(rdm_select))\n    rdm_idx = rdm_select[rdm_idx]", "    rdm_idx = np.random.RandomState().randint(0, len(rdm_select),\n                                size=len(rdm_select))\n    rdm_idx = rdm_select[rdm_idx]")
# ---- C18
mut('C18', 'signal-not-sqrt', S, "        data = Zcond @ true_U * np.sqrt(signal) + epsilon", "        data = Zcond @ true_U * signal + epsilon")
mut('C18', 'noise-sqrt-dropped', S, "        epsilon = ss.norm.ppf(epsilon) * np.sqrt(noise)", "        epsilon = ss.norm.ppf(epsilon) * noise")
mut('C18', 'same-signal-regenerated', S, "        if not use_same_signal:\n            true_U = make_signal(", "        if True:\n            true_U = make_signal(")
mut('C18', 'fresh-signal-not-regenerated', S, "    if use_same_signal:\n        true_U = make_signal(G, n_channel, use_exact_signal,\n                             signal_chol_channel)",
    "    true_U = make_signal(G, n_channel, use_exact_signal,\n                         signal_chol_channel)\n    use_same_signal = True")
mut('C18', 'design-transposed', S, "    cond_vec = np.kron(np.ones((n_part,)), c)   # Condition Vector", "    cond_vec = np.kron(c, np.ones((n_part,)))   # Condition Vector")
# (removed: 'noise-cov-transposed', epsilon @ noise_chol_channel.T -- the statement fixes additivity and sqrt scaling of the
#  noise term, not which triangle of the Cholesky factor shapes it (the transposed form is in fact the one whose covariance
#  is the requested matrix), so C18 accepts both orientations since wave 6 and this is no violation)
mut('C18', 'noise-cov-dropped', S, "            epsilon = epsilon @ noise_chol_channel", "            epsilon = epsilon")
mut('C18', 'noise-trial-cov-on-channels', S, "            epsilon = noise_chol_trial @ epsilon", "            epsilon = epsilon @ noise_chol_trial")
# ---- C19
mut('C19', 'radius-le', SL, "    return tuple(data[distance < radius].T.tolist())", "    return tuple(data[distance <= radius].T.tolist())")
mut('C19', 'threshold-gt', SL, "        if (mask[neighbors] != 0).mean() >= threshold:", "        if (mask[neighbors] != 0).mean() > threshold:")
mut('C19', 'coverage-by-mask-values', SL, "        if (mask[neighbors] != 0).mean() >= threshold:", "        if mask[neighbors].mean() >= threshold:")
mut('C19', 'chunk-shifted', SL, "            RDM[chunks, :] = RDM_corr.dissimilarities", "            RDM[chunks[::-1], :] = RDM_corr.dissimilarities")
mut('C19', 'chunk-limit-descriptor', SL, "    SL_rdms = RDMs(RDM,\n                   rdm_descriptors={'voxel_index': centers},", "    SL_rdms = RDMs(RDM,\n                   rdm_descriptors={'voxel_index': np.sort(centers)},")
mut('C19', 'unordered', SL, "    results = Parallel(n_jobs=n_jobs)(", "    results = Parallel(n_jobs=n_jobs, return_as='generator_unordered')(")
# ---- C10
mut('C10', 'reorder-inverse-descriptors', R, "            self.pattern_descriptors[dname] = [descriptors[idx] for idx in new_order]", "            self.pattern_descriptors[dname] = [descriptors[idx] for idx in np.argsort(new_order)]")
mut('C10', 'concat-transposed-align', R, "                _, new_order = np.where(auth_order[:, None] == other_order)", "                new_order, _ = np.where(auth_order[:, None] == other_order)")
mut('C10', 'append-no-reindex', 'rsatoolbox/util/descriptor_utils.py', "        descriptor[k] = list(v) + list(desc_new[k])", "        descriptor[k] = list(desc_new[k]) + list(v)")
mut('C10', 'n-from-vector-floor', 'rsatoolbox/util/rdm_utils.py', "    return max(int(np.ceil(np.sqrt(x.shape[1] * 2))), 1)", "    return max(int(np.floor(np.sqrt(x.shape[1] * 2))), 1)")
mut('C10', 'sort_by-unstable', R, "                self.reorder(np.argsort(descriptor, kind='stable'))", "                self.reorder(np.argsort(descriptor))")
# ---- C11
mut('C11', 'sort-measurements-only', D, "        order = np.argsort(desc, kind='stable')\n        self.measurements = self.measurements[order]\n        self.obs_descriptors = subset_descriptor(self.obs_descriptors, order)\n\n    def get_measurements(self):",
    "        order = np.argsort(desc, kind='stable')\n        self.measurements = self.measurements[order]\n        self.obs_descriptors = subset_descriptor(self.obs_descriptors, np.sort(order))\n\n    def get_measurements(self):")
mut('C11', 'subset-descriptor-off-by-one', 'rsatoolbox/util/descriptor_utils.py', "            extracted_descriptor[k] = [v[index] for index in indices]", "            extracted_descriptor[k] = [v[index - 1] for index in indices]")
mut('C11', 'subset_time-open-interval', D, "        sel_time = [t for t in time if t_from <= t <= t_to]", "        sel_time = [t for t in time if t_from <= t < t_to]")
mut('C11', 'merge-set-order', 'rsatoolbox/data/ops.py', "    meas = concatenate([ds.measurements for ds in sets], axis=0)", "    meas = concatenate([ds.measurements for ds in sets[::-1]], axis=0)")
mut('C11', 'time_as_channels-order', D, "        chn_des = {k: np.repeat(v, n_tps, axis=0)\n                   for (k, v) in old_chn_des.items()}", "        chn_des = {k: np.concatenate([v] * n_tps, axis=0)\n                   for (k, v) in old_chn_des.items()}")
mut('C11', 'sort-unstable', D, "        desc = self.obs_descriptors[by]\n        order = np.argsort(desc, kind='stable')\n        self.measurements = self.measurements[order]\n        self.obs_descriptors = subset_descriptor(self.obs_descriptors, order)\n\n    def get_measurements(self):",
    "        desc = self.obs_descriptors[by]\n        order = np.argsort(desc, kind='quicksort')\n        self.measurements = self.measurements[order]\n        self.obs_descriptors = subset_descriptor(self.obs_descriptors, order)\n\n    def get_measurements(self):")
mut('C04', 'pool-remembered-per-object', 'rsatoolbox/util/inference_util.py', "    rdm_vec = rdms.get_vectors()\n    if method == 'euclid':", "    _key = (id(rdms), method, rdms.n_rdm, rdms.n_cond)\n    if _key in _POOLED:\n        return _POOLED[_key]\n    rdm_vec = rdms.get_vectors()\n    if method == 'euclid':")
# ---- C12
mut('C12', 'crossnobis-no-deepcopy', 'rsatoolbox/rdm/calc.py', "def calc_rdm_crossnobis(dataset, descriptor, noise=None,", "def calc_rdm_crossnobis(dataset, descriptor, noise=None,")
mut('C12', 'transform-writes-through', 'rsatoolbox/rdm/transform.py', "    dissimilarities = rdms.get_vectors().copy()\n    dissimilarities[dissimilarities < 0] = 0\n    dissimilarities = np.sqrt(dissimilarities)", "    dissimilarities = rdms.get_vectors()\n    np.sqrt(np.clip(dissimilarities, 0, None), out=dissimilarities)")
mut('C12', 'subset-reuses-parent-dict', R, "        descriptors = deepcopy(self.descriptors)\n        pattern_descriptors = deepcopy(self.pattern_descriptors)\n        rdm_descriptors = extract_dict(self.rdm_descriptors, selection)\n        dissimilarity_measure = self.dissimilarity_measure\n        rdms = RDMs(dissimilarities=dissimilarities,\n                    descriptors=descriptors,\n                    rdm_descriptors=rdm_descriptors,\n                    pattern_descriptors=pattern_descriptors,\n                    dissimilarity_measure=dissimilarity_measure)\n        return rdms\n\n    def subsample(",
    "        descriptors = deepcopy(self.descriptors)\n        pattern_descriptors = self.pattern_descriptors\n        rdm_descriptors = extract_dict(self.rdm_descriptors, selection)\n        dissimilarity_measure = self.dissimilarity_measure\n        rdms = RDMs(dissimilarities=dissimilarities,\n                    descriptors=descriptors,\n                    rdm_descriptors=rdm_descriptors,\n                    pattern_descriptors=pattern_descriptors,\n                    dissimilarity_measure=dissimilarity_measure)\n        return rdms\n\n    def subsample(")
mut('C12', 'cov-unbalanced-no-copy', 'rsatoolbox/data/noise.py', "        matrix = dataset.measurements.copy()", "        matrix = dataset.measurements")
mut('C12', 'sort_by-keeps-callers-list', R, "                self.reorder([list(descriptor).index(x) for x in new_order])", "                self.reorder([list(descriptor).index(x) for x in new_order])\n                if len(new_order) == self.n_cond:\n                    self.pattern_descriptors[dname] = new_order")
mut('C12', 'num_index-sorts-callers-list', 'rsatoolbox/util/descriptor_utils.py', "    return np.where(bool_index(descriptor, value))[0]", "    if isinstance(value, list):\n        value.sort()\n    return np.where(bool_index(descriptor, value))[0]")
mut('C12', 'copy-shares-array', R, "            dissimilarities=self.dissimilarities.copy(),", "            dissimilarities=self.dissimilarities,")
# ---- C16
mut('C16', 'unicode-branch-removed', H5, "            if dictionary[key].dtype.type is np.bytes_:\n                dictionary[key] = np.char.decode(dictionary[key], 'utf-8')", "            if False:\n                pass")
mut('C16', 'dict_to_list-lexicographic', 'rsatoolbox/util/descriptor_utils.py', "            d_dict[k] = [\n                d_dict[k][str(i)]\n                for i in range(len(d_dict[k]))]", "            d_dict[k] = [\n                d_dict[k][i]\n                for i in sorted(d_dict[k].keys())]")
mut('C16', 'remove_file-skipped', R, "        if overwrite:\n            remove_file(filename)\n        if file_type == 'hdf5':\n            write_dict_hdf5(filename, rdm_dict)", "        if overwrite and file_type != 'pkl':\n            remove_file(filename)\n        if file_type == 'hdf5':\n            write_dict_hdf5(filename, rdm_dict)")
mut('C16', 'file-kept-open', 'rsatoolbox/io/pkl.py', "    if isinstance(fhandle, str):\n        fhandle = open(fhandle, 'wb')\n    dictionary['rsatoolbox_version'] = version('rsatoolbox')", "    if isinstance(fhandle, str):\n        fhandle = open(fhandle, 'wb')\n        _OPEN.append(fhandle)\n    dictionary['rsatoolbox_version'] = version('rsatoolbox')")
mut('C16', 'overwrite-ignored', H5, "        if os.path.exists(fhandle):\n            raise ValueError('File already exists!')", "        if os.path.exists(fhandle) and False:\n            raise ValueError('File already exists!')")
mut('C16', 'measure-none-as-string', R, "        rdm_dict['dissimilarity_measure'] = self.dissimilarity_measure", "        rdm_dict['dissimilarity_measure'] = str(self.dissimilarity_measure)")
mut('C16', 'descriptors-truncated', 'rsatoolbox/data/base.py', "        data_dict['descriptors'] = self.descriptors", "        data_dict['descriptors'] = {k: v for k, v in self.descriptors.items() if not hasattr(v, 'shape')}")


def apply_extra(m, src):
    """mutants that need a second edit"""
    if m['name'] == 'file-kept-open':
        p = os.path.join(src, 'rsatoolbox/io/pkl.py')
        s = open(p).read().replace("import pickle\n", "import pickle\n_OPEN = []\n", 1)
        open(p, 'w').write(s)
    if m['name'] == 'pool-remembered-per-object':
        # (the second half: remember what was pooled, per data object and method)
        p = os.path.join(src, 'rsatoolbox/util/inference_util.py')
        s = open(p).read()
        s = s.replace("def pool_rdm(rdms, method: str = 'cosine'):", "_POOLED = {}\n\n\ndef pool_rdm(rdms, method: str = 'cosine'):", 1)
        old = ("    return RDMs(rdm_vec,\n                dissimilarity_measure=rdms.dissimilarity_measure,\n"
               "                descriptors=deepcopy(rdms.descriptors),\n                rdm_descriptors=None,\n"
               "                pattern_descriptors=deepcopy(rdms.pattern_descriptors))")
        assert s.count(old) == 1
        s = s.replace(old, old.replace('    return RDMs(', '    _out = RDMs(') + "\n    _POOLED[_key] = _out\n    return _out")
        open(p, 'w').write(s)
    if m['name'] == 'crossnobis-no-deepcopy':
        p = os.path.join(src, 'rsatoolbox/rdm/calc.py')
        s = open(p).read()
        i = s.index('def calc_rdm_crossnobis(')
        j = s.index('dataset = deepcopy(dataset)', i)
        s = s[:j] + 'dataset = dataset' + s[j + len('dataset = deepcopy(dataset)'):]
        open(p, 'w').write(s)


def main(argv):
    props = [a for a in argv if a.startswith('C')]
    runs_override = None
    if '--runs' in argv:
        runs_override = int(argv[argv.index('--runs') + 1])
    names = [a[2:] for a in argv if a.startswith('n=')]
    default_runs = {'C04': 700, 'C05': 1200, 'C09': 1200, 'C10': 2000, 'C11': 2000, 'C12': 2500, 'C16': 1500, 'C18': 800, 'C19': 600}
    missed, bad = [], []
    os.makedirs('/root/scratch', exist_ok=True)
    for m in M:
        if props and m['prop'] not in props:
            continue
        if names and m['name'] not in names:
            continue
        d = tempfile.mkdtemp(prefix='sens.', dir='/root/scratch')
        try:
            shutil.copytree('/repo/src/rsatoolbox', os.path.join(d, 'src', 'rsatoolbox'))
            p = os.path.join(d, 'src', m['path'])
            s = open(p).read()
            if s.count(m['old']) != 1:
                bad.append(m)
                print(f"{m['prop']} {m['name']}: PATTERN NOT FOUND ({s.count(m['old'])} matches) -- catalogue needs updating")
                continue
            open(p, 'w').write(s.replace(m['old'], m['new']))
            apply_extra(m, os.path.join(d, 'src'))
            env = dict(os.environ, VERIF_REPO_SRC=os.path.join(d, 'src'), VERIF_NO_EVIDENCE='1')
            env.pop('VERIF_REEXEC', None)
            runs = runs_override or m['runs'] or default_runs[m['prop']]
            r = subprocess.run([sys.executable, os.path.join(VERIF, 'sim', 'cli.py'), 'check', m['prop'], '--runs', str(runs)],
                               capture_output=True, text=True, env=env, timeout=1800)
            sigs = sorted({ln.split('signature=')[1] for ln in r.stdout.splitlines() if 'signature=' in ln})
            caught = r.returncode == 1 and 'VIOLATION property=' in r.stdout
            print(f"{m['prop']} {m['name']}: {'CAUGHT' if caught else 'MISSED (rc=%d)' % r.returncode} {sigs[:3]}")
            if not caught:
                missed.append(m)
                tail = [ln for ln in r.stdout.splitlines() if 'HARNESS' in ln][:3]
                if tail:
                    print('    ', tail)
        finally:
            shutil.rmtree(d, ignore_errors=True)
    rep = os.path.join(VERIF, 'replays')
    if os.path.isdir(rep):
        for f in os.listdir(rep):
            os.remove(os.path.join(rep, f))
    print(f'sensitivity: {len(missed)} missed, {len(bad)} stale patterns')
    return 1 if (missed or bad) else 0


if __name__ == '__main__':
    sys.exit(main(sys.argv[1:]))
