#!/venv/bin/python
"""Reach measurement: which parameters of the library functions behind a property did a batch of simulated runs ever
pass with a non-default value, and which functions in the anchored files were never entered?

usage: tools/optcov.py Cxx [n_runs] [--tier quick]      (prints a report; writes nothing under /verif)

A (function, parameter) pair listed under ONLY-DEFAULT is a blind spot of the workload: a change that only misbehaves
for a non-default value of that parameter cannot be noticed.  Used to decide where generators need widening."""
from __future__ import annotations
import inspect
import json
import os
import sys
import types
from collections import defaultdict

ROOT = os.path.dirname(os.path.dirname(os.path.abspath(__file__)))
sys.path.insert(0, ROOT)
os.environ.setdefault('TQDM_DISABLE', '1')
src = os.environ.get('VERIF_REPO_SRC', '/repo/src')
sys.path.insert(0, src)


def classify(v):
    import numpy as np
    if v is None:
        return 'None'
    if isinstance(v, bool):
        return f'bool:{v}'
    if isinstance(v, (int, np.integer)):
        return 'int:' + ('0' if v == 0 else '1' if v == 1 else 'neg' if v < 0 else 'n')
    if isinstance(v, (float, np.floating)):
        return 'float'
    if isinstance(v, str):
        return 'str:' + (v if len(v) < 14 else 'long')
    if isinstance(v, np.ndarray):
        return f'ndarray{v.ndim}:{v.dtype.kind}'
    if isinstance(v, (list, tuple)):
        return type(v).__name__ + (':empty' if not len(v) else ':' + type(v[0]).__name__)
    if isinstance(v, dict):
        return 'dict'
    return type(v).__name__


def main():
    prop = sys.argv[1]
    n = int(sys.argv[2]) if len(sys.argv) > 2 and sys.argv[2].isdigit() else 300
    tier = 'quick'
    from sim import runner
    mod = runner.load_check(prop)
    import rsatoolbox
    import pkgutil
    import importlib
    code2fn = {}
    for m in pkgutil.walk_packages(rsatoolbox.__path__, 'rsatoolbox.'):
        if any(x in m.name for x in ('.vis', 'cengine')):
            continue
        try:
            mm = importlib.import_module(m.name)
        except Exception:
            continue
        for name, obj in vars(mm).items():
            if isinstance(obj, types.FunctionType) and obj.__module__ == mm.__name__:
                code2fn[obj.__code__] = (mm.__name__ + '.' + name, obj)
            elif inspect.isclass(obj) and obj.__module__ == mm.__name__:
                for k, f in vars(obj).items():
                    f = getattr(f, '__func__', f)
                    if isinstance(f, types.FunctionType):
                        code2fn[f.__code__] = (f'{mm.__name__}.{obj.__name__}.{k}', f)
    seen = defaultdict(lambda: defaultdict(set))      # fn -> param -> classes seen
    nondefault = defaultdict(set)                     # fn -> params seen with a value other than the default
    defaults = {}
    calls = defaultdict(int)

    def _defaults(name, fn):
        if name not in defaults:
            try:
                defaults[name] = {k: p_.default for k, p_ in inspect.signature(fn).parameters.items()
                                  if p_.default is not inspect.Parameter.empty}
            except Exception:
                defaults[name] = {}
        return defaults[name]

    def prof(frame, event, arg):
        if event != 'call':
            return
        ent = code2fn.get(frame.f_code)
        if ent is None:
            return
        name, fn = ent
        calls[name] += 1
        co = frame.f_code
        nargs = co.co_argcount + co.co_kwonlyargcount
        for p in co.co_varnames[:nargs]:
            if p in ('self', 'cls'):
                continue
            try:
                v = frame.f_locals.get(p)
                seen[name][p].add(classify(v))
                dflt = _defaults(name, fn)
                if p in dflt and p not in nondefault[name]:
                    d = dflt[p]
                    same = v is d or (type(v) is type(d) and isinstance(d, (int, float, str, bool, type(None))) and v == d)
                    if not same:
                        nondefault[name].add(p)
            except Exception:
                pass

    known = runner.known_open_sigs(prop)
    seed = int(os.environ.get('VERIF_SEED', '0'))
    sys.setprofile(prof)
    try:
        for i in range(n):
            plan = runner.make_plan(mod, seed, tier, i)
            runner.execute_plan(mod, plan, known, cap_s=120)
    finally:
        sys.setprofile(None)
    props = [json.loads(l) for l in open(os.path.join(ROOT, 'properties.jsonl'))]
    anchors = [f for p in props if p['id'] == prop for f in p['anchors']['files']]
    amods = {a.replace('src/', '').replace('/', '.').replace('.py', '') for a in anchors}
    print(f'# {prop}: {n} runs; anchored modules: {sorted(amods)}')
    only_default, never = [], []
    for code, (name, fn) in sorted(code2fn.items(), key=lambda kv: kv[1][0]):
        modname = fn.__module__
        if modname not in amods:
            continue
        if name.split('.')[-1].startswith('__') and name.split('.')[-1] not in ('__init__', '__getitem__'):
            continue
        if calls.get(name, 0) == 0:
            never.append(name)
            continue
        try:
            sig = inspect.signature(fn)
        except Exception:
            continue
        for pn, par in sig.parameters.items():
            if pn in ('self', 'cls') or par.kind in (par.VAR_POSITIONAL, par.VAR_KEYWORD):
                continue
            classes = seen[name].get(pn, set())
            if par.default is not inspect.Parameter.empty:
                if pn not in nondefault[name]:
                    only_default.append(f'{name}({pn}={par.default!r})  calls={calls[name]}')
            if len(classes) == 1 and par.default is inspect.Parameter.empty:
                only_default.append(f'{name}({pn}) always {sorted(classes)[0]}  calls={calls[name]}')
    print('## NEVER ENTERED (functions of the anchored modules)')
    for x in never:
        print('  ', x)
    print('## ONLY-DEFAULT / SINGLE-CLASS PARAMETERS')
    for x in only_default:
        print('  ', x)
    print('## VALUE CLASSES SEEN (anchored modules)')
    for name in sorted(seen):
        if code2fn and any(name.startswith(a + '.') for a in amods):
            print('  ', name, {k: sorted(v) for k, v in seen[name].items()})


if __name__ == '__main__':
    main()
