#!/bin/sh
# usage: mutrun.sh <patch.diff> <Cxx> [extra cli args]
# Applies a patch to a scratch copy of /repo (outside /repo and /verif), runs the quick check against the
# copy via VERIF_REPO_SRC, removes the copy. Evidence is NOT written to /verif/evidence (VERIF_NO_EVIDENCE).
set -e
patch="$1"; shift
prop="$1"; shift
d=$(mktemp -d /root/scratch/mut.XXXXXX)
mkdir -p "$d/src"
cp -r /repo/src/rsatoolbox "$d/src/"
(cd "$d" && git init -q . && (git apply --whitespace=nowarn "$patch" 2>/dev/null || patch -p1 -s -F3 < "$patch"))
VERIF_REPO_SRC="$d/src" VERIF_NO_EVIDENCE=1 /venv/bin/python /verif/sim/cli.py check "$prop" "$@" || rc=$?
rm -rf "$d"
exit ${rc:-0}
