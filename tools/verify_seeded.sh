#!/bin/sh
# usage: verify_seeded.sh <src dir with patch.diff demo.py notes.md> <seeded id> <property>
# Confirms in a fresh scratch worktree: patch applies, pinned suite (stable subset) passes with it, demo fails with it
# and passes without it. Stores the artefacts under /verif/seeded/<id>/ with meta.json.
set -u
src="$1"; id="$2"; prop="$3"
wt=$(mktemp -d /tmp/vs.XXXXXX); rmdir "$wt"
/verif/tools/mkwt.sh "$wt" >/dev/null
out=/verif/seeded/$id; mkdir -p "$out"
cp "$src/patch.diff" "$src/demo.py" "$out/"; [ -f "$src/notes.md" ] && cp "$src/notes.md" "$out/"
cd "$wt"
PYTHONPATH=$wt/src /venv/bin/python "$out/demo.py" >"$out/demo_clean.log" 2>&1; rc_clean=$?
git apply --whitespace=nowarn "$out/patch.diff"; rc_apply=$?
PYTHONPATH=$wt/src /venv/bin/python "$out/demo.py" >"$out/demo_patched.log" 2>&1; rc_patched=$?
PYTHONPATH=$wt/src TQDM_DISABLE=1 /venv/bin/python -m pytest -q -p no:cacheprovider --timeout=900 tests --deselect tests/test_demo.py -k "not weighted_mds and not test_vis_plot_rdm" >"$out/tests_patched.log" 2>&1; rc_tests=$?
tail -1 "$out/tests_patched.log" > "$out/tests_patched.summary"
cd /; git -C /repo worktree remove --force "$wt"
cat > "$out/verify.json" <<EOT
{"id": "$id", "property": "$prop", "patch_applies": $([ $rc_apply = 0 ] && echo true || echo false),
 "demo_rc_clean": $rc_clean, "demo_rc_patched": $rc_patched, "tests_rc_patched": $rc_tests,
 "tests_summary": "$(cat $out/tests_patched.summary | tr -d '"')",
 "tests_cmd": "pytest -q tests --deselect tests/test_demo.py -k 'not weighted_mds and not test_vis_plot_rdm' (the 12 always-failing baseline tests excluded)",
 "confirmed": $([ $rc_apply = 0 ] && [ $rc_clean = 0 ] && [ $rc_patched != 0 ] && [ $rc_tests = 0 ] && echo true || echo false)}
EOT
rm -f "$out/tests_patched.summary"
cat "$out/verify.json"
