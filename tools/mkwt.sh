#!/bin/sh
# usage: mkwt.sh <dir>   — scratch worktree of /repo HEAD with the prebuilt compiled engine copied in
set -e
d="$1"
git -C /repo worktree add --detach "$d" HEAD >/dev/null 2>&1
cp /repo/src/rsatoolbox/cengine/*.so "$d/src/rsatoolbox/cengine/"
echo "$d"
