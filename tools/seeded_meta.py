#!/venv/bin/python
"""Runs every seeded defect under /verif/seeded/<id>/ through the quick check of its property (against a scratch copy of
/repo with the patch applied) and (re)writes meta.json. Usage: seeded_meta.py [id ...]"""
import json
import os
import re
import subprocess
import sys

VERIF = os.path.dirname(os.path.dirname(os.path.abspath(__file__)))
NEEDS = {
    'C04-aA': 'a bootstrap draw with fewer than 3 distinct conditions (degenerate resample); guard changed from distinct drawn groups to sample.n_cond',
    'C04-aB': 'flexible model + folds that differ only in their training RDMs (same count, same condition list): memoised theta keyed without the RDM identity',
    'C05-aA': 'a grouping pattern descriptor whose groups are interleaved (not contiguous): add_pattern_index de-duplicates only neighbours',
    'C05-aB': 'RDM-only cross-validation with equal-sized training sets: cached theta reused across folds, so theta depends on test-only RDMs',
    'C09-aA': 'a draw that selects one condition three or more times: only adjacent copies are NaN-marked',
    'C09-aB': 'non-default rdm_descriptor whose values are not 0..n-1: bootstrap_sample returns positions instead of group values',
    'C10-aA': 'to_df on a multi-RDM object whose dissimilarities are not C-contiguous (e.g. after subset_pattern): ravel(order="K")',
    'C10-aB': 'from_partials with a partial whose conditions are in a different relative order than the union: sorted placement indices',
    'C11-aA': '>= 3 labels whose first-appearance order is a 3-cycle of their sorted order: get_unique_inverse returns the wrong inverse',
    'C11-aB': 'bin_time with a bin whose members do not fill the window between their min and max (interleaved / skipping bins)',
    'C12-aA': "calc_rdm(method='poisson_cv') with a user cv_descriptor on unsorted observations: dataset sorted in place",
    'C12-aB': 'rank_transform applied twice then an in-place op: second call returns the input object itself',
    'C16-aA': 'Result with >= 11 models saved to HDF5: models read back in alphabetical key order (model_10 before model_2)',
    'C16-aB': "RDMs produced by subset/reorder (index != 0..n-1) saved and loaded: 'index' descriptors dropped on save",
    'C18-aA': 'use_same_signal=True, n_sim >= 2, signal != 1: signal scaling re-applied on every simulation',
    'C18-aB': 'condition vector whose conditions do not first appear in ascending order: indicator columns by first appearance',
    'C19-aA': 'non-integer radius (1.5, 2.5): bounding-box prefilter with int(radius) drops voxels',
    'C19-aB': "n_jobs != 1 and a later task finishing before an earlier one: return_as='generator_unordered'",
    'C04-bA': "RDM-only bootstrap with a grouped / non-ascending rdm_descriptor: bootstrap_sample_rdm returns rdms[positions] instead of the drawn groups",
    'C04-bB': "string rdm labels and a rerun in a new process with another PYTHONHASHSEED: group order taken from set() iteration",
    'C05-bA': "sets_k_fold with k_rdm >= 3 and (number of RDM groups mod k_rdm) >= 2: the left-over group index ignores the fold offset",
    'C05-bB': "grouped pattern descriptor + cross-validation over RDMs + fitted model: crossval refits on rdms.subset_pattern(...) of the FULL data (test RDMs leak)",
    'C09-bA': "'index' pattern descriptor that is not 0..n-1 (after subset_pattern / resampling a resample): index fast path assumes arange(n_cond)",
    'C09-bB': "grouped rdm descriptor with unequal group sizes: groups drawn by position in the raw descriptor (probability proportional to size)",
    'C10-bA': "get_matrices/reorder (cache filled), then append, then any use of the square form: stale cached matrices",
    'C10-bB': "subsample then reorder/sort_by on sample or source: subsample shares the pattern_descriptors dict",
    'C11-bA': "split_channel/subset_channel/split_time/... then sort_by on a part: sort_by writes into the shared obs_descriptors dict",
    'C11-bB': "subset_time on a time descriptor that is not monotonically non-decreasing: binary search selection",
    'C12-bA': "ndarray pattern descriptor with strictly increasing values + a shuffling fold generator: add_pattern_index hands out the caller's array",
    'C12-bB': "subset_channel/split_channel then sort_by: Dataset.sort_by updates the shared obs_descriptors dict in place",
    'C16-bA': "HDF5 + ragged descriptor list with more than 10 entries: dict_to_list takes group values in name order ('10' before '2')",
    'C16-bB': "pickle + open handle already written + overwrite=True: remove_file only called for hdf5, new pickle appended after the old one",
    'C18-bA': "an LDL pivot in the random Gram matrix (frequent when n_channel is close to n_cond): solve_triangular ignores the permuted part",
    'C18-bB': "noise_cov_channel given and noise not in {0,1}: noise level applied twice",
    'C19-bA': "more than 1000 centres and a data matrix that is not float64: chunked result buffer takes the data dtype",
    'C19-bB': "n_jobs > 1: the searchlight iterator yields one reused RDMs object, pending tasks see a later centre's data",
    'C04-cA': "ndarray pattern descriptor with unique increasing labels + random folds + no condition resampling + flexible model: folds cut from RDMs whose labels were shuffled in place",
    'C04-cB': "eval_bootstrap_rdm with boot_noise_ceil=False and a grouped rdm_descriptor: full-data ceiling computed leave-one-RDM-out",
    'C05-cA': "grouping descriptor with repeated string/float labels and a looked-up value list of >= ~17 entries: np.isin(assume_unique=True) in bool_index",
    'C05-cB': "bootstrap sample with a repeated draw, grouping by the default 'index': subsample renumbers index, copies land on different sides",
    'C09-cA': "get_matrices / pattern draw, then reorder or sort_by in place, then another pattern draw: cached square form not refreshed by reorder",
    'C09-cB': "dual bootstrap_sample with a pattern descriptor that has repeated values: n_cond draws instead of one per group",
    'C10-cA': "permute_rdms then append: append_descriptor extends lists shared through permute_rdms' shallow dict copy",
    'C10-cB': "RDMs.subsample with a scalar multi-character string value: iterated character by character",
    'C11-cA': "merge of >= 2 parts whose dataset-level descriptor is distinct per part and not ascending (odd_even_split on 4,2,3,1): sorted unique values reused as per-part values",
    'C11-cB': "time_as_channels on a non-C-contiguous measurements array (after subset_time / split_channel ...): flatten(order='K')",
    'C12-cA': "RDMs.mean(weights=float64 ndarray or descriptor name) with NaNs in the dissimilarities: weights NaN-masked in place",
    'C12-cB': "permute_rdms / inverse_permute_rdms then append: list descriptors extended in place and shared by the shallow copy",
    'C16-cA': "pathlib.Path target + existing HDF5 file + overwrite=False: File(..., 'w') replaces the file silently",
    'C16-cB': "TemporalDataset with a ragged time descriptor saved to HDF5: time_descriptors not converted back from the per-element group",
    'C18-cA': "condition vector whose first-appearance order contains a 3-cycle (random trial order): get_unique_inverse returns the wrong inverse in calc_rdm's averaging",
    'C18-cB': "use_exact_signal=True, default use_same_signal=False, n_sim >= 2: signal generated once before the loop",
    'C19-cA': "threshold < 1 and a centre whose in-mask fraction equals the threshold exactly (border-truncated spheres): '>' instead of '>='",
    'C19-cB': "> 1000 centres and event labels not first occurring in sorted order: chunked branch encodes labels by first appearance",
    'C04-dA': "eval_dual_bootstrap without cv (uncorrected branch) and at least one unusable resample: covariance divided by N-1 instead of n_ok-1",
    'C04-dB': "bootstrap_crossval boot_type='both' with a grouping pattern descriptor and fewer condition groups than RDM groups: dof from n_cond",
    'C05-dA': "sets_random with n_rdm > 0 and n_pattern == 0 (RDM-only random CV): copy/paste guard makes train == test == all RDMs",
    'C05-dB': "sets_k_fold / bootstrap_crossval with k_pattern == 1 and k_rdm > 1: two cooperating edits alias the ceiling entries to the test entries",
    'C09-dA': "ndarray pattern descriptor; bootstrap_sample_rdm, then sort_by/reorder on the sample, then another draw from the source: shallow dict copy + in-place array permutation",
    'C09-dB': "grouping pattern descriptor whose values are not stored ascending: searchsorted ranks used as positions in subsample_pattern",
    'C10-dA': "rdms[i] (or iteration) then reorder/sort_by on the extracted RDM: integer index returns a view + reorder writes in place (two edits)",
    'C10-dB': "a condition occurring three or more times in subsample_pattern: only neighbouring copies NaN-marked",
    'C11-dA': "TemporalDataset: split_obs(by), sort_by(other), split_obs(by) again: memoised unique/inverse not invalidated by the TemporalDataset.sort_by override",
    'C11-dB': "split_time on a time descriptor whose equal values are not adjacent: contiguous slice instead of the selection",
    'C12-dA': "fit_regress called directly with method 'corr'/'corr_cov', pattern_idx None, NaN-free data: _parse_nan_vectors returns its inputs + in-place demeaning (two edits)",
    'C12-dB': "dataset stored in contiguous equal blocks per descriptor value: get_measurements_tensor returns a view, noise estimation demeans it in place",
    'C16-dA': "pickle, open handle holding two objects written one after the other: read_dict_pkl rewinds the handle before every load",
    'C16-dB': "HDF5 str path loaded, overwritten, loaded again in one process: read_dict_hdf5 memoised per path",
    'C18-dA': "n_sim >= 2, fresh signals: G made Fortran-ordered + ldl(overwrite_a=True) overwrite G during the first make_signal (two edits)",
    'C18-dB': "noise_cov_channel given and noise != 1: noise folded into the Cholesky factor and reset to 1.0, descriptor records 1.0",
    'C19-dA': "threshold >= 1, radius > 1, mask touching a face of the volume: np.roll-based neighbour prefilter wraps around",
    'C19-dB': "n_jobs > 1 and a centre count that is not a multiple of the worker count: zip() over interleaved shares truncates",
    'C04-eA': "number of pattern groups not divisible by k_pattern + a fitted model: left-over test condition never removed from the training fold",
    'C04-eB': "eval_bootstrap_pattern with two models sharing a name: predictions cached by model name",
    'C05-eA': "sets_leave_one_out_pattern with string labels where one is a substring of another ('c1', 'c10'): bare label + membership mask (two edits)",
    'C05-eB': "grouped rdm descriptor whose members are not adjacent (interleaved sessions, bootstrap copies apart): subsample takes first index + count",
    'C09-eA': "repeated rdm descriptor whose equal values are not contiguous: itertools.groupby lists a group once per run",
    'C09-eB': "float pattern labels close to each other relative to their magnitude (onsets as unix timestamps): np.isclose matching reached through subsample_pattern (two edits)",
    'C10-eA': "subset_pattern with a value list of >= 3 conditions not in pattern order: descriptors follow the list, dissimilarities the mask",
    'C10-eB': "concat/from_partials of objects whose differing object-level descriptor has a falsy value (0, '', False): truthiness test",
    'C11-eA': "merge of parts where a later part has a label that does not fit the first part's dtype ('c10' after 'c1', 0.5 after ints): preallocated descriptor",
    'C11-eB': "subset_time on repeated time values / subset_obs with a value list repeating a value: num_index gathers hits per requested value (two edits)",
    'C12-eA': "ndarray pattern descriptors; subsample then reorder/sort_by: shallow dict copy + in-place array permutation (two edits)",
    'C12-eB': "concat(list) where a later element has another pattern order: reordered copies written into the caller's list",
    'C16-eA': "handle whose .name is an integer fd, already written, overwrite=True: remove_file no longer truncates it",
    'C16-eB': "Result with dof == 0 (eval_fixed on one data RDM): falsy default turns dof into 1 on load",
    'C18-eA': "signal != 1 and a second make_dataset call with the same ModelFixed/ModelSelect object: signal folded into the model's stored RDM in place",
    'C18-eB': "use_same_signal=True, n_sim >= 2, noise > 0: noise added in place to one shared buffer (two edits)",
    'C19-eA': "n_jobs > 1, >= 2*n_workers centres, searchlight RDMs object subset or re-ordered before evaluation: blocks selected by 'index' values",
    'C19-eB': "Fortran-ordered or transposed mask: linear indices computed from memory strides",
    'C04-fA': "only conditions cross-validated (k_rdm == 1, k_pattern >= 2) in bootstrap_crossval / eval_dual_bootstrap: ceiling taken from all conditions",
    'C04-fB': "bootstrap_crossval with use_correction=False and n_cv >= 2: corrected variance returned anyway",
    'C05-fA': "sets_random with n_cv >= 2: advertised training indices are a view of a buffer re-shuffled by later folds",
    'C05-fB': "sets_k_fold with random=False and k_rdm >= 2: ceiling sets of later rdm groups hold group 0's test rdms",
    'C09-fA': "integer (non-float) dissimilarity stacks and a pattern draw repeating a condition: NaN marking cast back to the integer dtype",
    'C09-fB': "pattern draws with fewer than three distinct groups are silently redrawn",
    'C10-fA': "concat where a later stack is ordered differently and the first stack's order is a non-involutive permutation of the sorted labels",
    'C10-fB': "subsample_pattern(by=None) after a history that made 'index' differ from positions",
    'C11-fA': "subset_time on a descriptor with a repeated value outside the window and >= 16 distinct selected float values (np.isin assume_unique)",
    'C11-fB': "average_dataset_by with a non-finite value in one condition's rows: other conditions' averages become NaN",
    'C12-fA': "pool_rdm (euclid / neg_riem_dist) of a single-RDM object returns an array shared with the source; later array write",
    'C12-fB': "crossnobis with per-fold noise (list / 3-D array / dict) that is symmetric only up to round-off: caller's container rewritten",
    'C16-fA': "HDF5 save with a ragged list descriptor (fallback path keeps the exception in a reference cycle): file not closed until the cycle collector runs",
    'C16-fB': "load_results with an explicit file_type and a file name whose ending suggests the other format",
    'C18-fA': "use_exact_signal with n_channel == n_cond exactly (eigh instead of ldl factor)",
    'C18-fB': "explicit 0/1 design matrix with a row that is not one-hot (compound or null trial)",
    'C19-fA': "mask voxel closer than the radius to a face of the volume (sphere size taken from a template)",
    'C19-fB': "evaluate_models_searchlight with n_jobs > 1, explicit theta and a flexible model (theta not passed to the workers)",
    'C04-gA': "pool_rdm normalising the caller's vectors in place: a history of calls on one data object, or n_cv >= 2 with corr and fitted models",
    'C04-gB': "bootstrap_crossval: a skipped (too small) resample stores noise ceiling 0.0 instead of NaN",
    'C05-gA': "a child made by subset/subsample shares the parent's pattern descriptors; child re-ordered in place; then folds of the parent",
    'C05-gB': "grouped rdm_descriptor + k_rdm > 1 through bootstrap_crossval / eval_dual_bootstrap (descriptor not handed to the fold generator)",
    'C09-gA': "string group labels where one is a prefix of another and the draw misses the longest label (dtype re-inferred from the draw)",
    'C09-gB': "descriptor given as 2-D array (one row per item): extracted from the flattened array",
    'C10-gA': "concat/from_partials: array descriptor of a later object does not fit the first object's dtype",
    'C10-gB': "concat with explicit target_pdesc and a later object in another order",
    'C11-gA': "Dataset.from_df with explicit channels listed in an order other than the frame's column order",
    'C11-gB': "time_as_observations on a time axis stored in non-ascending order (two cooperating edits)",
    'C12-gA': "get_matrices() caches and returns the cache: array write on the returned matrices, then re-read / in-place re-order",
    'C12-gB': "sqrt_transform on RDMs holding both a NaN and a negative value (copy skipped)",
    'C16-gA': "HDF5 reader turns zero-length arrays into None",
    'C16-gB': "refused save to an existing HDF5 path deletes the file it refused to replace",
    'C18-gA': "two make_dataset calls with signal != 1 and the same number of conditions (cached centering matrix scaled in place)",
    'C18-gB': "condition labels other than 0..n-1 (descriptor stores codes instead of the condition vector)",
    'C19-gA': "radius equal to an attainable irrational voxel distance (sqrt(2), sqrt(5) ...) with squared-distance comparison",
    'C19-gB': "searchlight RDMs object re-ordered or sub-selected before evaluation (selection by 'index' value)",
    'C04-hA': "eval_bootstrap_pattern: a too-small resample (NaN columns dropped from the stored noise ceilings)",
    'C04-hB': "eval_bootstrap with fewer condition groups than rdm groups (dof = min(n_rdm - 1, n_pattern))",
    'C05-hA': "pattern descriptor stored as ndarray with strictly increasing values + random fold assignment (descriptor array shuffled in place)",
    'C05-hB': "float rdm group labels within relative tolerance 1e-5 of each other (np.isclose in subsample)",
    'C09-hA': "grouping pattern descriptor stored as ndarray and not sorted by position (sorted in place by the first draw)",
    'C09-hB': "draw, then re-assign the grouping descriptor's values (same n_rdm), then draw again (stale label table)",
    'C10-hA': "permute_rdms with a permutation that is not its own inverse and a named pattern descriptor",
    'C10-hB': "concat/from_partials of >= 3 objects with an object-level descriptor carried only by a middle one",
    'C11-hA': "subset_obs/subset_channel with a value list containing an absent value that truncates / casts onto a present label",
    'C11-hB': "observation descriptor with missing entries and exactly one distinct real value left, through to_df/from_df",
    'C12-hA': "calc_rdm(method='poisson', descriptor=None) on float64 measurements (smoothing done in place)",
    'C12-hB': "geodesic_transform of the output of minmax_transform (works on the live array)",
    'C16-hA': "HDF5: list/array string descriptor whose longest element has non-ASCII characters (byte width taken from the character count)",
    'C16-hB': "HDF5: arrays of non-native byte order come back byte-swapped",
    'C18-hA': "one partition, unsorted condition vector, calc_rdm by cond_vec (two cooperating edits)",
    'C18-hB': "use_same_signal=True, n_sim >= 2, noise > 0 (noise accumulates in one shared array)",
    'C19-hA': "an earlier iteration over the searchlight RDMs object that was abandoned (iteration cursor kept on the object)",
    'C19-hB': "threshold 1.0, radius > 1 and a mask within the radius of the volume border (erosion pre-selection)",
}


def main(ids):
    root = os.path.join(VERIF, 'seeded')
    for sid in sorted(os.listdir(root)):
        if ids and sid not in ids:
            continue
        d = os.path.join(root, sid)
        prop = sid.split('-')[0]
        patch = os.path.join(d, 'patch.diff')
        runs = {'C04': 1400, 'C16': 1800, 'C12': 5000, 'C19': 2500, 'C05': 4000, 'C18': 4000}.get(prop, 8000)
        r = subprocess.run([os.path.join(VERIF, 'tools', 'mutrun.sh'), patch, prop, '--runs', str(runs)],
                           capture_output=True, text=True, timeout=3600)
        sigs = re.findall(r'signature=(\S+)', r.stdout)
        viol = re.findall(r'VIOLATION property=(\S+)', r.stdout)
        summary = [ln for ln in r.stdout.splitlines() if 'runs=' in ln]
        ver = {}
        if os.path.exists(os.path.join(d, 'verify.json')):
            ver = json.load(open(os.path.join(d, 'verify.json')))
        meta = {'id': sid, 'property_broken': prop, 'needs_to_manifest': NEEDS.get(sid, 'see notes.md'),
                'origin': 'independent sub-agent given only the property text and its own scratch worktree',
                'confirmed_in_scratch_worktree': ver,
                'what_was_run': [f'tools/verify_seeded.sh <agent dir> {sid} {prop}   (patch applies; pinned suite passes with it; demo.py fails with it, passes without)',
                                 f'tools/mutrun.sh seeded/{sid}/patch.diff {prop} --runs {runs}   (quick check against a scratch copy of /repo with the patch)'],
                'detected': bool(viol), 'exit_status': r.returncode, 'detected_by': f'{prop} quick check', 'signatures': sorted(set(sigs)),
                'check_summary': summary[:1]}
        with open(os.path.join(d, 'meta.json'), 'w') as f:
            json.dump(meta, f, indent=1)
        print(sid, 'DETECTED' if viol else 'MISSED', sorted(set(sigs))[:3])
    for f in os.listdir(os.path.join(VERIF, 'replays')) if os.path.isdir(os.path.join(VERIF, 'replays')) else []:
        os.remove(os.path.join(VERIF, 'replays', f))


if __name__ == '__main__':
    main(sys.argv[1:])
