#!/venv/bin/python
"""Regenerates /verif/MANIFEST.json from the table below (keeps it schema-valid at all times)."""
import json
import os

VERIF = os.path.dirname(os.path.dirname(os.path.abspath(__file__)))

CLAIMED = {
    'C09': ('4 C09', 'seeded deterministic simulation: numpy global RNG behind a seam with draw-fault injection '
                     '(degenerate / identity / threshold draws); resample reference model evaluated from the served draws'),
    'C05': ('4 C05', 'seeded deterministic simulation: shuffle outcomes served by the RNG seam (identity/reversed/rotated/'
                     'random, enumerated for small group counts); partition reference model + record/replay-with-'
                     'perturbation non-interference through wrapped fitters'),
    'C04': ('4 C04', 'seeded deterministic simulation: all draws served with threshold-biased draw faults; spies observe '
                     'the resamples/folds/fitter calls; label-aligned reference re-evaluation + replay metamorphics'),
    'C18': ('4 C18', 'seeded deterministic simulation: signal/noise draws served and recorded by the RNG seam; closed-form '
                     'reference + replay of the identical draw history under changed noise configuration'),
    'C19': ('4 C19', 'seeded deterministic simulation: joblib execution backend and clock replaced by a seeded task '
                     'scheduler (completion orders, stragglers, batch sizes); brute-force geometry and per-centre reference'),
    'C10': ('4 C10/C11/C12/C16', 'seeded deterministic simulation of operation histories over a pool of aliased objects; '
                                 'value-semantics reference model of RDMs keyed by unique ids, checked after every operation'),
    'C11': ('4 C10/C11/C12/C16', 'seeded deterministic simulation of operation histories over a pool of aliased datasets; '
                                 'value-semantics reference model keyed by unique ids, checked after every operation'),
    'C12': ('4 C10/C11/C12/C16', 'seeded deterministic simulation of operation histories: bystander fingerprints of every '
                                 'live object after every operation, (producer, in-place mutator) pairs, introspected call sweep'),
    'C16': ('4 C10/C11/C12/C16', 'seeded deterministic simulation with a file-system seam: save/load/overwrite histories, '
                                 'dirty and re-opened handles, injected write faults, crash snapshots, second-generation saves and two saves in flight '
                                 'at once (two threads switched at the file seam by a seeded scheduler) against a path->last-acknowledged-object model'),
}

NA = {
    'C01': 'pure function of (measurements, labels, method, options): no RNG, clock, I/O, schedule or shared state between input and output, so there is nothing for a simulator to schedule or fault; deciding it is input generation against a formula (property-based/differential testing), a different technique family',
    'C02': 'pure function of its inputs (the fold loop is deterministic and draws nothing); no schedule, fault or history to simulate',
    'C03': 'compare() is a pure function of two RDM stacks and options; no nondeterminism, I/O or history',
    'C06': 'pure functions of (evaluations, covariance, n, dof); no schedule, fault or crash point exists',
    'C07': 'pool_rdm / boot_noise_ceiling / cv_noise_ceiling are pure; their leave-one-out loop draws nothing (that ceilings belong to the same resample is decided under C04)',
    'C08': 'a for-all-competitors numerical optimality statement over pure fitters; the only randomness (fit_optimize start points) is not what the property quantifies over',
    'C13': 'pure functions of NaN-bearing arrays; no schedule, fault or history',
    'C14': 'pure functions of residual matrices / datasets; no schedule, fault or history',
    'C15': 'pure function, and the compiled engine is a prebuilt .so that cannot be rebuilt here (Cython absent), so checks could not rebuild from the working tree',
    'C17': 'pure functions of RDM stacks (that several transforms overwrite their input is an aliasing matter decided under C12)',
    'C20': 'parse/format inverse laws on whole files read through third-party loaders; the importers have no retry, partial-read, cache or write path of their own to inject faults into',
}


def main():
    built = [p for p in CLAIMED if os.path.exists(os.path.join(VERIF, 'checks', p.lower() + '.py'))]
    checks = []
    for p in sorted(built):
        ref, tech = CLAIMED[p]
        checks.append({
            'property_id': p,
            'quick_cmd': f'/venv/bin/python sim/cli.py check {p} --tier quick',
            'thorough_cmd': f'/venv/bin/python sim/cli.py check {p} --tier thorough',
            'evidence_file': f'/verif/evidence/{p}.json',
            'replay_cmd_template': '/venv/bin/python sim/cli.py replay {path}',
            'engine': 'sim',
            'level_claimed': {
                'category': 'exploration',
                'text': 'Seeded search over simulated histories (served random draws / schedules / operation and fault '
                        'sequences) with an executable reference model as oracle; every failure is minimised and '
                        'replayable from one file. A clean batch is evidence over the sampled histories, not a proof; '
                        'this is the level deterministic simulation can honestly give for a for-all-histories property.',
                'design_ref': 'DESIGN.md section ' + ref},
            'level_note': 'Trusted: CPython 3.12, numpy/scipy/h5py/joblib as installed, the reference twins under sim/twins, '
                          'single-threaded BLAS; the simulator stubs only the entropy source / task scheduler / file objects, '
                          'all of rsatoolbox runs real code imported from /repo/src (current working tree).',
            'technique': tech,
        })
    na = [{'property_id': p, 'reason': r} for p, r in sorted(NA.items())]
    for p in sorted(CLAIMED):
        if p not in built:
            na.append({'property_id': p, 'reason': 'NOT YET BUILT in this commit (simulation check planned, see DESIGN.md section '
                                                   + CLAIMED[p][0] + '); not claimed until its check exists'})
    man = {
        'version': 1,
        'setup_cmd': '/venv/bin/python sim/cli.py setup',
        'hooks': {'guard': 'RSATOOLBOX_VERIF', 'enable': 'no source hooks are needed: all seams are module attributes '
                  '(numpy.random.*, joblib backend registry, rsatoolbox.io.*.open/File/os) rebound by the simulator at run time',
                  'baseline_off_cmd': 'cd /repo && /venv/bin/python -m pytest -ra -q -p no:cacheprovider --timeout=900 '
                                      '--continue-on-collection-errors',
                  'source_commits': [], 'add_only': True},
        'engines': [{'name': 'sim', 'path': '/verif/sim', 'serves_properties': sorted(built),
                     'kind_free_text': 'hand-written deterministic simulator: seed derivation, RNG seam with draw faults, '
                                       'joblib scheduler seam, file-system seam, reference twins, ddmin shrinker, replay'}],
        'checks': checks,
        'not_applicable': sorted(na, key=lambda e: e['property_id']),
        'notes': 'Exit codes of every command: 0 held (KNOWN-FINDING lines allowed), 1 VIOLATION (replay file written), '
                 '2 harness problem (never reported as a violation). VERIF_SEED selects the batch of run seeds.',
    }
    with open(os.path.join(VERIF, 'MANIFEST.json'), 'w') as f:
        json.dump(man, f, indent=1)
    print('MANIFEST.json: claimed', sorted(built))


if __name__ == '__main__':
    main()
